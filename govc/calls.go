package main

import (
	"fmt"
	"go/ast"
	"go/parser"
	"go/types"
	"sort"
	"strconv"
	"strings"

	"golang.org/x/tools/go/ssa"
)

// execCall handles a Call instruction; returns true when a continuation took over.
func (ex *Exec) execCall(st *State, in *ssa.Call, b *ssa.BasicBlock, idx int) bool {
	common := in.Common()
	fr := st.top()
	bind := func(st2 *State, results []Value) {
		f2 := st2.top()
		switch len(results) {
		case 0:
			f2.env[in] = mk(SUnit, "unit")
		case 1:
			f2.env[in] = results[0]
		default:
			f2.env[in] = TupleV(results)
		}
	}
	if bi, ok := common.Value.(*ssa.Builtin); ok {
		var bargs []Value
		hooked := false
		if con := ex.contractOf(fr.fn); con != nil {
			for _, a := range con.Ats {
				if a.Callee == bi.Name() {
					hooked = true
				}
			}
		}
		if hooked {
			for _, a := range common.Args {
				bargs = append(bargs, ex.val(st, a))
			}
			ex.atCallArgs = bargs
			ex.atCall(st, in, true, nil)
		}
		r := ex.callBuiltin(st, in, bi, common.Args)
		fr.env[in] = r
		if hooked {
			ex.atCallArgs = bargs
			ex.atCall(st, in, false, []Value{r})
		}
		return false
	}
	depth := len(st.frames)
	var args []Value
	k := func(st2 *State, results []Value) {
		if len(st2.frames) != depth {
			ex.unsupportedf("frame mismatch after call")
		}
		ex.atCallArgs = args // calls made inside the callee have overwritten the shared slot
		ex.atCall(st2, in, false, results)
		bind(st2, results)
		ex.execFrom(st2, b, idx+1)
	}
	for _, a := range common.Args {
		args = append(args, ex.val(st, a))
	}
	ex.atCallArgs = args
	ex.atCall(st, in, true, nil)
	if common.IsInvoke() {
		recv := ex.term(st, ex.val(st, common.Value))
		ex.invoke(st, in, recv, common.Value.Type(), common.Method, args, k)
		return true
	}
	switch f := ex.val(st, common.Value).(type) {
	case *ClosureV:
		if ex.intrinsic(st, in, f, args, k) {
			return true
		}
		ex.callKnown(st, in, f, args, k)
		return true
	case Term:
		// call of an unknown function value
		ex.oblige(st, "nil", "", in, not(eq(f, mk("Fn", "fn_nil"))), "call of non-nil function value")
		sig := types.Unalias(common.Value.Type()).Underlying().(*types.Signature)
		ex.callFuncValue(st, in, f, common.Value.Type(), sig, args, k)
		return true
	}
	ex.unsupportedf("call of %T", ex.val(st, common.Value))
	return false
}

// atCall runs the `at call` ghost code / assertions of the function under
// verification that match this call site.
func (ex *Exec) atCall(st *State, in ssa.CallInstruction, before bool, results []Value) {
	fr := st.top()
	con := ex.contractOf(fr.fn)
	if con == nil || len(con.Ats) == 0 {
		return
	}
	name := calleeName(in.Common())
	ord := ex.callOrdinal(fr.fn, in, name)
	for i := range con.Ats {
		a := &con.Ats[i]
		if a.Callee != name || (a.Ordinal != 0 && a.Ordinal != ord) || a.Before != before {
			continue
		}
		c := ex.ctxAt(st, fr, in.Block(), instrIndex(in))
		for j, v := range ex.atCallArgs {
			if t, ok := v.(Term); ok && j < len(in.Common().Args) {
				c.binds[fmt.Sprintf("arg%d", j)] = TT{T: t, Ty: in.Common().Args[j].Type()}
			}
		}
		if in.Common().IsInvoke() {
			if rv, ok := fr.env[in.Common().Value].(Term); ok {
				c.binds["this"] = TT{T: rv, Ty: in.Common().Value.Type()}
			}
		}
		if !before {
			sig := in.Common().Signature()
			for j, r := range results {
				if t, ok := r.(Term); ok {
					var rty types.Type
					if sig != nil && j < sig.Results().Len() {
						rty = sig.Results().At(j).Type()
					} else if v, isV := in.(ssa.Value); isV {
						rty = v.Type()
					}
					tt := TT{T: t, Ty: rty}
					c.binds[fmt.Sprintf("result%d", j)] = tt
					if j == 0 {
						c.binds["result"] = tt
					}
				}
			}
		}
		if a.Assert != nil {
			c.clause = a.Assert
			g := ex.safeFormula(c, a.Assert.Text)
			ex.oblige(st, "at", a.Assert.Label, in.(ssa.Instruction), g, "assertion at call "+name)
			st.assume(g)
			continue
		}
		c.clause = &Clause{File: a.File, Line: a.Line, Text: a.Expr}
		// ghost update; `g[i] = e` updates an array-sorted ghost
		target := a.Ghost
		if i := strings.Index(target, "["); i > 0 && strings.HasSuffix(target, "]") {
			gname := target[:i]
			idxT := ex.safeExpr(c, target[i+1:len(target)-1])
			val := ex.safeExpr(c, a.Expr)
			cur, ok := st.ghosts[gname]
			if !ok {
				ex.specFail(c, "unknown ghost %s", gname)
			}
			st.ghosts[gname] = sto(cur, idxT.T, val.T)
			continue
		}
		if _, ok := st.ghosts[target]; !ok {
			ex.specFail(c, "unknown ghost %s", target)
		}
		if st.gsorts[target] == SBool {
			st.ghosts[target] = ex.safeFormula(c, a.Expr)
		} else {
			st.ghosts[target] = ex.safeExpr(c, a.Expr).T
		}
	}
}

func calleeName(c *ssa.CallCommon) string {
	if c.IsInvoke() {
		return c.Method.Name()
	}
	if mc, ok := c.Value.(*ssa.MakeClosure); ok {
		// a local closure called by name (push(), pop()): its source-level name
		if refs := mc.Referrers(); refs != nil {
			for _, r := range *refs {
				if dr, ok := r.(*ssa.DebugRef); ok && !dr.IsAddr {
					if id, ok := dr.Expr.(*ast.Ident); ok {
						return id.Name
					}
				}
			}
		}
	}
	if f := c.StaticCallee(); f != nil {
		return f.Name()
	}
	// dynamic call: use the source-level name of the function value
	v := c.Value
	for i := 0; i < 4; i++ {
		switch x := v.(type) {
		case *ssa.UnOp:
			v = x.X
			continue
		case *ssa.FieldAddr:
			if st := structOf(x.X.Type().Underlying().(*types.Pointer).Elem()); st != nil {
				return st.Field(x.Field).Name()
			}
		case *ssa.Field:
			if st := structOf(x.X.Type()); st != nil {
				return st.Field(x.Field).Name()
			}
		case *ssa.Parameter:
			return x.Name()
		case *ssa.FreeVar:
			return x.Name()
		case *ssa.Alloc:
			return x.Comment
		}
		break
	}
	// a local holding the function value: its source-level name (debug info)
	if refs := c.Value.Referrers(); refs != nil {
		for _, r := range *refs {
			if dr, ok := r.(*ssa.DebugRef); ok && !dr.IsAddr {
				if id, ok := dr.Expr.(*ast.Ident); ok {
					return id.Name
				}
			}
		}
	}
	return c.Value.Name()
}

// callOrdinal: 1-based index of this call among calls with the same callee name, in source order.
func (ex *Exec) callOrdinal(fn *ssa.Function, in ssa.CallInstruction, name string) int {
	m := ex.callOrds[fn]
	if m == nil {
		m = map[ssa.Instruction]int{}
		type site struct {
			in  ssa.Instruction
			pos int
			seq int
		}
		byName := map[string][]site{}
		seq := 0
		for _, b := range fn.Blocks {
			for _, i := range b.Instrs {
				if ci, ok := i.(ssa.CallInstruction); ok {
					seq++
					n := calleeName(ci.Common())
					byName[n] = append(byName[n], site{i, int(i.Pos()), seq})
				}
			}
		}
		for _, ss := range byName {
			sort.Slice(ss, func(a, b int) bool {
				if ss[a].pos != ss[b].pos {
					return ss[a].pos < ss[b].pos
				}
				return ss[a].seq < ss[b].seq
			})
			for i, s := range ss {
				m[s.in] = i + 1
			}
		}
		ex.callOrds[fn] = m
	}
	return m[in.(ssa.Instruction)]
}

// invoke: interface method call.
func (ex *Exec) invoke(st *State, site ssa.CallInstruction, recv Term, ifaceT types.Type, meth *types.Func, args []Value, k retK) {
	if recv.Sort == SVal {
		ex.oblige(st, "nil", "", site.(ssa.Instruction), not(eq(recv, nilVal)), "method call on non-nil interface value")
	}
	// statically known dynamic type: (box$N x)
	if strings.HasPrefix(recv.S, "(box$") {
		head, as := splitArgs(recv.S)
		if id, err := strconv.Atoi(strings.TrimPrefix(head, "box$")); err == nil && len(as) == 1 {
			if t := ex.w.typeByID[id]; t != nil {
				if fn := ex.w.prog.LookupMethod(t, meth.Pkg(), meth.Name()); fn != nil {
					payload := mk(ex.w.sortOf(t, ex.d), as[0])
					ex.callKnown(st, site, &ClosureV{Fn: fn}, append([]Value{payload}, args...), k)
					return
				}
			}
		}
	}
	sig := meth.Type().(*types.Signature)
	if ic := ex.w.ifaceFor(ifaceT, meth.Name()); ic != nil {
		m := ic.Methods[meth.Name()]
		names := []string{"this"}
		tys := []types.Type{ifaceT}
		for i := 0; i < sig.Params().Len(); i++ {
			n := sig.Params().At(i).Name()
			if n == "" || n == "_" {
				n = fmt.Sprintf("arg%d", i)
			}
			names = append(names, n)
			tys = append(tys, sig.Params().At(i).Type())
		}
		var mods map[string]bool
		if !m.Pure && !m.HasAssign {
			mods = ex.w.invokeMods(ifaceT, meth.Name())
		}
		rs := ex.applyContract(st, site, ic.Sel+"."+m.Name, &m.Contract, nil, names, tys, append([]Value{recv}, args...), sig, mods, func(ts []Term) Term {
			var tts []TT
			for i, t := range ts[1:] {
				tts = append(tts, TT{T: t, Ty: tys[i+1]})
			}
			return ex.applyIfacePure(st, ic, m, ts[0], tts).T
		})
		k(st, rs)
		return
	}
	// external interfaces with a spec (io.Writer, error, sort.Interface, fmt.Stringer)
	isel := typeString(ifaceT)
	if con := ex.w.cons["("+isel+")."+meth.Name()]; con != nil {
		names := []string{"this"}
		tys := []types.Type{ifaceT}
		for i := 0; i < sig.Params().Len(); i++ {
			n := sig.Params().At(i).Name()
			if i < len(con.Names) {
				n = con.Names[i]
			}
			names = append(names, n)
			tys = append(tys, sig.Params().At(i).Type())
		}
		rs := ex.applyContract(st, site, con.Sel, con, nil, names, tys, append([]Value{recv}, args...), sig, nil, nil)
		k(st, rs)
		return
	}
	ex.unknownCall(st, site, sig, "interface method "+isel+"."+meth.Name()+" without contract", ex.w.invokeMods(ifaceT, meth.Name()), k)
}

// unknownCall: arbitrary results, the given heaps forgotten.
func (ex *Exec) unknownCall(st *State, site ssa.CallInstruction, sig *types.Signature, why string, mods map[string]bool, k retK) {
	ex.note("call with no contract treated as arbitrary: %s", why)
	ex.uncontracted[why] = true
	ex.applyMods(st, site, mods, "call: "+why)
	ex.flushFrames(st)
	var rs []Value
	for i := 0; i < sig.Results().Len(); i++ {
		rs = append(rs, ex.freshOfType(st, "r", sig.Results().At(i).Type()))
	}
	k(st, rs)
}

func (ex *Exec) applyMods(st *State, site ssa.CallInstruction, mods map[string]bool, what string) {
	if mods == nil {
		return
	}
	if mods["*"] {
		ex.frameCall(st, site, "*", what)
		ex.havocAll(st)
		return
	}
	names := make([]string, 0, len(mods))
	for n := range mods {
		names = append(names, n)
	}
	sort.Strings(names)
	bumped := false
	for _, n := range names {
		allocOnly := !mods[n]
		if strings.HasPrefix(n, "G!") {
			delete(st.globals, strings.TrimPrefix(n, "G!"))
			ex.frameCall(st, site, n, what)
			if site != nil {
				ex.captureWrite(st, site.(ssa.Instruction), "package-level variable (in "+what+")")
			}
			continue
		}
		if !allocOnly {
			ex.frameCall(st, site, n, what)
		}
		if !bumped {
			bumped = true
		}
		ex.havocHeap(st, n, allocOnly)
	}
	if bumped {
		ex.bumpAlloc(st)
	}
}

// frameCall: a callee that may write heap `name` is only allowed when the
// function under verification lists it in its assigns clause.
func (ex *Exec) frameCall(st *State, site ssa.CallInstruction, name, what string) {
	if ex.con == nil || !ex.con.HasAssign || site == nil {
		return
	}
	for _, a := range ex.con.Assigns {
		if a == "*" || a == name || (strings.HasSuffix(a, "*") && strings.HasPrefix(name, strings.TrimSuffix(a, "*"))) {
			return
		}
	}
	if strings.HasPrefix(name, "W$") {
		for _, a := range ex.con.Assigns {
			if a == "writer" {
				return
			}
		}
	}
	// The callee may write this heap although the caller's assigns clause does not list it:
	// allowed only if every object that existed when the caller was entered keeps its contents
	// across the call. The obligation is emitted once the callee's postconditions are known
	// (flushFrames), so that "writes only its fresh argument" style contracts discharge it.
	srt := st.hsorts[name]
	if srt == "" {
		srt = ex.heapSortByName(name)
	}
	if ks, _, ok := arrayParts(srt); ok && ks == SInt && !strings.HasPrefix(name, "W$") && !strings.HasPrefix(name, "G!") {
		ex.pendingFrames = append(ex.pendingFrames, callFrame{site: site, heap: name, sort: srt, before: ex.heap(st, name, srt), what: what})
		if !ex.deferFrames {
			// no contract to consult: the write is unconstrained
		}
		return
	}
	ex.oblige(st, "frame", "", site.(ssa.Instruction), tFalse, what+" may write "+name+", which the assigns clause does not allow")
}

type callFrame struct {
	site   ssa.CallInstruction
	heap   string
	sort   string
	before Term
	what   string
}

// flushFrames emits the deferred call-frame obligations against the current (post-call) state.
func (ex *Exec) flushFrames(st *State) {
	pf := ex.pendingFrames
	ex.pendingFrames = nil
	for _, f := range pf {
		after := ex.heap(st, f.heap, f.sort)
		goal := mk(SBool, fmt.Sprintf("(forall ((r Int)) (! (=> (and (< 0 r) (< r %s)) (= (select %s r) (select %s r))) :pattern ((select %s r))))", st.alloc0.S, after.S, f.before.S, after.S))
		if after.S == f.before.S {
			goal = tTrue
		}
		ex.oblige(st, "frame", "", f.site.(ssa.Instruction), goal, f.what+" may write "+f.heap+", which the assigns clause does not list: objects that existed at entry must be unchanged")
	}
}

// callFuncValue: call through a func-typed value that is not statically known.
func (ex *Exec) callFuncValue(st *State, site ssa.CallInstruction, f Term, ft types.Type, sig *types.Signature, args []Value, k retK) {
	// function-type contracts: `func type <named func type>` or by signature string
	key := "functype " + typeString(ft)
	if con := ex.w.cons[key]; con != nil {
		names := []string{}
		tys := []types.Type{}
		for i := 0; i < sig.Params().Len(); i++ {
			n := fmt.Sprintf("arg%d", i)
			if i < len(con.Names) {
				n = con.Names[i]
			}
			names = append(names, n)
			tys = append(tys, sig.Params().At(i).Type())
		}
		var mods map[string]bool
		if !con.HasAssign && !con.Pure {
			mods = map[string]bool{"*": true}
		}
		var pure func(ts []Term) Term
		if con.Pure && sig.Results().Len() == 1 {
			fname := smtName("fv$", typeString(ft))
			rs := ex.w.sortOf(sig.Results().At(0).Type(), ex.d)
			pure = func(ts []Term) Term {
				as := []string{"Fn"}
				for _, t := range ts {
					as = append(as, t.Sort)
				}
				ex.d.declFun(fname, as, rs)
				return app(rs, fname, append([]Term{f}, ts...)...)
			}
		}
		rs := ex.applyContract(st, site, key, con, nil, names, tys, args, sig, mods, pure)
		k(st, rs)
		return
	}
	ex.unknownCall(st, site, sig, "call of function value of type "+typeString(ft), map[string]bool{"*": true}, k)
}

// callKnown: statically known callee (possibly a closure with bindings).
func (ex *Exec) callKnown(st *State, site ssa.CallInstruction, cl *ClosureV, args []Value, k retK) {
	fn := cl.Fn
	sel := shortName(fn.String())
	con := ex.w.cons[sel]
	if con == nil {
		if fname, ok := ex.w.filterNames[fn]; ok {
			if c2 := ex.w.cons[fmt.Sprintf("filter %q", fname)]; c2 != nil {
				con, sel = c2, fmt.Sprintf("filter %q", fname)
			}
		}
	}
	sig := fn.Signature
	if sig.Recv() != nil && len(args) > 0 && ex.w.inRepo(fn) && site != nil {
		if t, ok := args[0].(Term); ok {
			if inv := ex.typeInv(st, sig.Recv().Type(), t); inv.S != "true" {
				if _, isPtr := types.Unalias(sig.Recv().Type()).Underlying().(*types.Pointer); isPtr {
					ex.oblige(st, "typeinv", "call."+shortSel(sel), site.(ssa.Instruction), inv, "receiver satisfies its type invariant at the call of "+sel)
				}
			}
		}
	}
	if con != nil && !con.Inline {
		var names []string
		var tys []types.Type
		for i, p := range fn.Params {
			n := p.Name()
			if i < len(con.Names) {
				n = con.Names[i]
			}
			names = append(names, n)
			tys = append(tys, p.Type())
		}
		if len(fn.Params) == 0 && (sig.Params().Len() > 0 || sig.Recv() != nil) {
			// external function without SSA body
			if sig.Recv() != nil {
				names = append(names, "this")
				tys = append(tys, sig.Recv().Type())
			}
			for i := 0; i < sig.Params().Len(); i++ {
				n := sig.Params().At(i).Name()
				if len(names) < len(con.Names) {
					n = con.Names[len(names)]
				}
				names = append(names, n)
				tys = append(tys, sig.Params().At(i).Type())
			}
		}
		var mods map[string]bool
		if !con.Pure && !con.HasAssign {
			if ex.w.inRepo(fn) {
				mods = ex.w.modsOf(fn)
			}
		}
		var pure func(ts []Term) Term
		if con.Pure && sig.Results().Len() == 1 {
			pure = func(ts []Term) Term { return ex.purApp(st, fn, sel, con, ts).T }
		}
		rs := ex.applyContract(st, site, sel, con, fn, names, tys, args, sig, mods, pure)
		k(st, rs)
		return
	}
	if len(fn.Blocks) > 0 && ex.shouldInline(st, fn, con) {
		ex.enter(st, fn, args, cl.Bindings, k)
		return
	}
	if !ex.w.inRepo(fn) {
		ex.note("external function without specification treated as arbitrary and effect-free: %s", sel)
		ex.unknownCall(st, site, sig, "external "+sel, nil, k)
		return
	}
	ex.unknownCall(st, site, sig, "function "+sel+" without contract", ex.w.modsOf(fn), k)
}

func (ex *Exec) shouldInline(st *State, fn *ssa.Function, con *Contract) bool {
	if con != nil && con.Inline {
		return true
	}
	if len(st.frames) > 6 {
		return false
	}
	for _, f := range st.frames {
		if f.fn == fn {
			return false // recursion
		}
	}
	if fn.Parent() != nil {
		return true // local closure
	}
	if fn.Synthetic != "" && !strings.Contains(fn.Synthetic, "package initializer") {
		return true // wrappers, thunks, bound methods
	}
	if !ex.w.inRepo(fn) {
		return false
	}
	// small loop-free helper
	if len(ex.loops(fn).loops) > 0 {
		return false
	}
	n := 0
	for _, b := range fn.Blocks {
		n += len(b.Instrs)
	}
	return n <= 60
}

// applyContract: check requires, apply effects, assume ensures; returns results.
func (ex *Exec) applyContract(st *State, site ssa.CallInstruction, sel string, con *Contract, fn *ssa.Function, names []string, tys []types.Type,
	args []Value, sig *types.Signature, mods map[string]bool, pure func([]Term) Term) []Value {
	if len(names) != len(args) {
		ex.unsupportedf("contract %s: %d parameter names for %d arguments", sel, len(names), len(args))
	}
	pkg := (*types.Package)(nil)
	if fn != nil {
		pkg = pkgOf(fn)
	}
	c := &SpecCtx{ex: ex, st: st, binds: map[string]TT{}, bound: map[string]string{}, pkg: pkg}
	var argTerms []Term
	allTerms := true
	for i, n := range names {
		switch v := args[i].(type) {
		case Term:
			c.binds[n] = TT{T: v, Ty: tys[i]}
			argTerms = append(argTerms, v)
		case *PtrV:
			c.binds[n] = TT{T: c.ptrTerm(v), Ty: tys[i], P: v}
			if t := c.ptrTerm(v); !t.IsZero() {
				argTerms = append(argTerms, t)
			} else {
				allTerms = false
			}
		case *ClosureV:
			c.binds[n] = TT{T: v.T, Ty: tys[i]}
			argTerms = append(argTerms, v.T)
		default:
			allTerms = false
		}
		// argN is the N-th PARAMETER (the receiver of a method is `this`, not arg0)
		if len(names) > 0 && names[0] == "this" {
			if i > 0 {
				c.binds[fmt.Sprintf("arg%d", i-1)] = c.binds[n]
			}
		} else {
			c.binds[fmt.Sprintf("arg%d", i)] = c.binds[n]
		}
	}
	// the callee's ghost variables are existential from the caller's point of view
	for _, g := range con.Ghosts {
		if _, clash := c.binds[g.Name]; !clash {
			gs, gty := ex.ghostSort(c, g.Sort)
			c.binds[g.Name] = TT{T: ex.fresh("cg_"+g.Name, gs), Ty: gty}
		}
	}
	var siteI ssa.Instruction
	if site != nil {
		siteI = site.(ssa.Instruction)
	}
	for i := range con.Requires {
		c.clause = &con.Requires[i]
		g := ex.safeFormula(c, con.Requires[i].Text)
		lbl := con.Requires[i].Label
		ex.oblige(st, "pre", strings.TrimSuffix(shortSel(sel)+"."+lbl, "."), siteI, g, "precondition of "+sel)
		st.assume(g)
	}
	if con.Trusted {
		ex.d.trust("trusted contract: " + sel)
	}
	// panic effects
	for _, p := range con.Panics {
		if !st.panicOK[p] && !st.panicOK["any"] {
			ex.oblige(st, "panic", "may-panic."+p, siteI, tFalse, sel+" may panic with "+p+", which is not in this function's panics clause")
		}
	}
	old := st.snapshot()
	// effects
	if con.HasAssign {
		m := map[string]bool{}
		for _, a := range con.Assigns {
			if strings.HasPrefix(a, "*") && len(a) > 1 {
				// lvalue designated by a pointer parameter
				tt, ok := c.binds[a[1:]]
				if !ok {
					ex.unsupportedf("assigns %s: unknown parameter", a)
				}
				if tt.P != nil {
					nv := ex.freshOfType(st, "hv", ex.pointeeType(tt.P))
					ex.store(st, tt.P, nv, siteI)
				} else {
					pt := types.Unalias(tt.Ty).Underlying().(*types.Pointer)
					p := &PtrV{Base: tt.T, Root: pt.Elem()}
					nv := ex.freshOfType(st, "hv", pt.Elem())
					ex.store(st, p, nv, siteI)
				}
				continue
			}
			if a == "writer" {
				m["W$total"] = true
				continue
			}
			if strings.HasPrefix(a, "alloc ") {
				m[strings.TrimPrefix(a, "alloc ")] = false
				continue
			}
			m[a] = true
		}
		ex.applyMods(st, site, m, sel)
	} else if mods != nil {
		ex.applyMods(st, site, mods, sel)
	}
	// results
	var results []Value
	nres := sig.Results().Len()
	for i := 0; i < nres; i++ {
		rt := sig.Results().At(i).Type()
		var r Term
		if pure != nil && nres == 1 && allTerms {
			r = pure(argTerms)
			ex.assumeTypeFacts(st, rt, r)
		} else {
			r = ex.freshOfType(st, "res_"+shortSel(sel), rt)
		}
		results = append(results, r)
		tt := TT{T: r, Ty: rt}
		c.binds[fmt.Sprintf("result%d", i)] = tt
		if i == 0 {
			c.binds["result"] = tt
		}
		if n := sig.Results().At(i).Name(); n != "" && n != "_" {
			if _, clash := c.binds[n]; !clash {
				c.binds[n] = tt
			}
		}
	}
	if con.Fresh {
		for _, r := range results {
			t := r.(Term)
			switch t.Sort {
			case SInt:
				st.assume(ge(t, old.alloc))
			case SSlc:
				st.assume(or(ge(slcBase(t), old.alloc), eq(slcBase(t), intLit(0))))
			}
		}
	}
	c.old = old
	for i := range con.Ensures {
		c.clause = &con.Ensures[i]
		// a postcondition that speaks about the callee's locals or ghosts it cannot name here
		// (e.g. parseTokens' `len(stack) == 0`) is simply not available to the caller
		var g Term
		usable := func() (ok bool) {
			defer func() {
				if r := recover(); r != nil {
					if _, isSpec := r.(specError); isSpec {
						ok = false
						return
					}
					panic(r)
				}
			}()
			g = c.Formula(con.Ensures[i].Text)
			return true
		}()
		if !usable {
			ex.note("postcondition %s of %s is not expressible at this call site and is not used", con.Ensures[i].Label, sel)
			continue
		}
		st.assume(g)
	}
	ex.flushFrames(st)
	return results
}

func shortSel(sel string) string {
	if i := strings.LastIndex(sel, "/"); i >= 0 {
		sel = sel[i+1:]
	}
	return sel
}

func (ex *Exec) specFail(c *SpecCtx, format string, a ...any) {
	c.failf(format, a...)
}

// safeFormula translates a clause, converting spec errors into run-level errors.
func (ex *Exec) safeFormula(c *SpecCtx, text string) (t Term) {
	defer func() {
		if r := recover(); r != nil {
			if se, ok := r.(specError); ok {
				ex.specErrors[se.msg] = true
				panic(abortPath{"contract error: " + se.msg})
			}
			panic(r)
		}
	}()
	return c.Formula(text)
}

func (ex *Exec) safeExpr(c *SpecCtx, text string) (t TT) {
	defer func() {
		if r := recover(); r != nil {
			if se, ok := r.(specError); ok {
				ex.specErrors[se.msg] = true
				panic(abortPath{"contract error: " + se.msg})
			}
			panic(r)
		}
	}()
	return c.Expr(text)
}

// ctxAt builds a spec context whose names resolve in frame fr at block b / index idx.
func (ex *Exec) ctxAt(st *State, fr *Frame, b *ssa.BasicBlock, idx int) *SpecCtx {
	c := &SpecCtx{ex: ex, st: st, old: ex.entry, frame: fr, binds: map[string]TT{}, bound: map[string]string{}, at: b, atIdx: idx, pkg: pkgOf(fr.fn)}
	if fr.fn == ex.fn {
		for n, v := range ex.entryBinds {
			c.binds[n+"0"] = v
		}
	}
	return c
}

// intrinsic models a few library functions by their defining behaviour in terms
// of interface calls, so that statically known receivers resolve to their contracts.
func (ex *Exec) intrinsic(st *State, site *ssa.Call, f *ClosureV, args []Value, k retK) bool {
	name := shortName(f.Fn.String())
	switch name {
	case "(*sync.Once).Do":
		// once.Do(f): if the flag is clear, run f and set the flag (sync.Once is modelled as its
		// done flag; concurrent callers are outside the sequential model)
		if len(args) != 2 {
			return false
		}
		cl, ok := args[1].(*ClosureV)
		if !ok {
			return false
		}
		ot := site.Common().Args[0].Type()
		p := ex.ptr(st, args[0], ot, site)
		done := ex.load(st, p)
		ex.d.trust("(*sync.Once).Do(f) runs f exactly when the Once has not been used before (sequential model)")
		if done.S != "true" {
			st2 := st.clone()
			st2.assume(not(done))
			ex.guard(func() {
				ex.callKnown(st2, site, cl, nil, func(st3 *State, _ []Value) {
					ex.store(st3, ex.ptr(st3, args[0], ot, nil), tTrue, site)
					k(st3, nil)
				})
			})
		}
		if done.S != "false" {
			st.assume(done)
			k(st, nil)
		}
		return true
	case "io.WriteString", "fmt.Fprintf", "fmt.Fprint", "fmt.Fprintln":
		w := ex.term(st, args[0])
		var s Term
		if name == "io.WriteString" {
			s = ex.term(st, args[1])
			ex.d.trust("io.WriteString(w, s) behaves as w.Write([]byte(s))")
		} else {
			s = ex.fresh("fmtout", SStr)
			ex.d.trust(name + "(w, ...) formats to a string and calls w.Write once with it")
		}
		// p := []byte(s)
		base := ex.newRef(st, "wsbuf")
		hname, h := ex.slcHeap(st, SInt)
		arr := ex.fresh("wsarr", arraySort(SInt, SInt))
		n := app(SInt, "str_len", s)
		st.assume(eq(app(SStr, "arr2str", arr, intLit(0), n), s))
		ex.setHeap(st, hname, sto(h, base, arr))
		p := mkSlc(base, intLit(0), n, n)
		wt := site.Common().Args[0].Type()
		iface, ok := types.Unalias(wt).Underlying().(*types.Interface)
		if !ok {
			return false
		}
		var meth *types.Func
		for i := 0; i < iface.NumMethods(); i++ {
			if iface.Method(i).Name() == "Write" {
				meth = iface.Method(i)
			}
		}
		if meth == nil {
			return false
		}
		ex.invoke(st, site, w, wt, meth, []Value{p}, k)
		return true
	}
	return false
}

// ghostSort: a ghost may be declared with an SMT sort or with a Go type (e.g. []reflect.Value);
// the latter is resolved to its sort and keeps the type so that contracts can index it.
func (ex *Exec) ghostSort(c *SpecCtx, decl string) (string, types.Type) {
	if strings.ContainsAny(decl, "[.*") && !strings.HasPrefix(decl, "(") {
		if te, err := parser.ParseExpr(decl); err == nil {
			var gty types.Type
			ex.guard(func() { gty = c.resolveType(te) })
			if gty != nil {
				return ex.w.sortOf(gty, ex.d), gty
			}
		}
	}
	return decl, nil
}
