package main

import (
	"fmt"
	"go/types"
	"strings"

	"golang.org/x/tools/go/ssa"
)

// splitArgs splits the top-level arguments of "(f a b c)".
func splitArgs(s string) (string, []string) {
	if len(s) < 2 || s[0] != '(' {
		return s, nil
	}
	body := s[1 : len(s)-1]
	var parts []string
	depth, start := 0, 0
	for i := 0; i < len(body); i++ {
		switch body[i] {
		case '(':
			depth++
		case ')':
			depth--
		case ' ':
			if depth == 0 {
				if i > start {
					parts = append(parts, body[start:i])
				}
				start = i + 1
			}
		}
	}
	if start < len(body) {
		parts = append(parts, body[start:])
	}
	if len(parts) == 0 {
		return "", nil
	}
	return parts[0], parts[1:]
}

func init() {
	// install simplifying slice accessors
	simplSlc = func(s Term, i int, name string) Term {
		if strings.HasPrefix(s.S, "(mk_slc ") {
			if _, args := splitArgs(s.S); len(args) == 4 {
				return mk(SInt, args[i])
			}
		}
		return app(SInt, name, s)
	}
}

var simplSlc func(s Term, i int, name string) Term

func sBase(s Term) Term { return simplSlc(s, 0, "s_base") }
func sOff(s Term) Term  { return simplSlc(s, 1, "s_off") }
func sLen(s Term) Term  { return simplSlc(s, 2, "s_len") }
func sCap(s Term) Term  { return simplSlc(s, 3, "s_cap") }

func (ex *Exec) slcHeap(st *State, es string) (string, Term) {
	name := "S$" + es
	return name, ex.heap(st, name, arraySort(SInt, arraySort(SInt, es)))
}

func (ex *Exec) slcElem(st *State, s Term, i Term, es string) Term {
	_, h := ex.slcHeap(st, es)
	return sel(sel(h, sBase(s), arraySort(SInt, es)), eix(sOff(s), i), es)
}

func (ex *Exec) mapHeaps(st *State, mt *types.Map) (hn, vn string, has, val Term, ks, vs string) {
	ks = ex.w.sortOf(mt.Key(), ex.d)
	vs = ex.w.sortOf(mt.Elem(), ex.d)
	hn = "M$has$" + ks + "$" + vs
	vn = "M$val$" + ks + "$" + vs
	has = ex.heap(st, hn, arraySort(SInt, arraySort(ks, SBool)))
	val = ex.heap(st, vn, arraySort(SInt, arraySort(ks, vs)))
	return
}

func (ex *Exec) mapHas(st *State, mt *types.Map, m, k Term) Term {
	_, _, has, _, ks, _ := ex.mapHeaps(st, mt)
	return and(not(eq(m, intLit(0))), sel(sel(has, m, arraySort(ks, SBool)), k, SBool))
}

func (ex *Exec) mapGet(st *State, mt *types.Map, m, k Term) Term {
	_, _, _, val, ks, vs := ex.mapHeaps(st, mt)
	return sel(sel(val, m, arraySort(ks, vs)), k, vs)
}

func (ex *Exec) mapCard(st *State, mt *types.Map, m Term) Term {
	_, _, has, _, ks, _ := ex.mapHeaps(st, mt)
	fn := smtName("map_card$", ks)
	if !ex.d.has("fun:" + fn) {
		as := arraySort(ks, SBool)
		ex.d.declFun(fn, []string{as}, SInt)
		ex.d.axiom("card:"+fn, fmt.Sprintf("(assert (forall ((h %s)) (! (>= (%s h) 0) :pattern ((%s h)))))\n(assert (= (%s ((as const %s) false)) 0))\n(assert (forall ((h %s) (k %s)) (! (= (%s (store h k true)) (+ (%s h) (ite (select h k) 0 1))) :pattern ((%s (store h k true))))))",
			as, fn, fn, fn, as, as, ks, fn, fn, fn))
	}
	card := ite(eq(m, intLit(0)), intLit(0), app(SInt, fn, sel(has, m, arraySort(ks, SBool))))
	// a Go map that exists at run time has fewer than 2^62 entries (a fact about this map value,
	// not an axiom about all key sets)
	st.assume(le(card, intLit(4611686018427387904)))
	return card
}

func (ex *Exec) lookup(st *State, in *ssa.Lookup) Value {
	x := ex.term(st, ex.val(st, in.X))
	k := ex.term(st, ex.val(st, in.Index))
	switch t := types.Unalias(in.X.Type()).Underlying().(type) {
	case *types.Map:
		if k.Sort == SVal {
			ex.oblige(st, "cmp", "", in, app(SBool, "vcomparable", k), "map key of interface type is comparable (hashable) in depth")
		}
		has := ex.mapHas(st, t, x, k)
		v := ite(has, ex.mapGet(st, t, x, k), ex.zero(t.Elem()))
		if in.CommaOk {
			return TupleV{v, has}
		}
		return v
	case *types.Basic: // string
		ex.oblige(st, "bounds", "", in, and(le(intLit(0), k), lt(k, app(SInt, "str_len", x))), "string index in range")
		r := app(SInt, "str_at", x, k)
		st.assume(and(le(intLit(0), r), le(r, intLit(255))))
		return r
	}
	ex.unsupportedf("lookup on %s", in.X.Type())
	return nil
}

func (ex *Exec) sliceOp(st *State, in *ssa.Slice) Value {
	xv := ex.val(st, in.X)
	opt := func(v ssa.Value, def Term) Term {
		if v == nil {
			return def
		}
		return ex.term(st, ex.val(st, v))
	}
	switch t := types.Unalias(in.X.Type()).Underlying().(type) {
	case *types.Basic:
		x := ex.term(st, xv)
		n := app(SInt, "str_len", x)
		lo, hi := opt(in.Low, intLit(0)), opt(in.High, n)
		ex.oblige(st, "bounds", "", in, and(le(intLit(0), lo), le(lo, hi), le(hi, n)), "string slice bounds in range")
		if in.Low == nil && in.High == nil {
			return x
		}
		return app(SStr, "str_sub", x, lo, hi)
	case *types.Slice:
		x := ex.term(st, xv)
		lo, hi, mx := opt(in.Low, intLit(0)), opt(in.High, sLen(x)), opt(in.Max, sCap(x))
		ex.oblige(st, "bounds", "", in, and(le(intLit(0), lo), le(lo, hi), le(hi, mx), le(mx, sCap(x))), "slice bounds in range")
		return mkSlc(sBase(x), add(sOff(x), lo), sub(hi, lo), sub(mx, lo))
	case *types.Pointer:
		at, ok := types.Unalias(t.Elem()).Underlying().(*types.Array)
		if !ok {
			break
		}
		p, ok := xv.(*PtrV)
		if !ok || p.Cell != nil || len(p.Path) > 0 {
			ex.unsupportedf("slice of array pointer not rooted at a fresh allocation")
		}
		n := intLit(at.Len())
		lo, hi := opt(in.Low, intLit(0)), opt(in.High, n)
		ex.oblige(st, "bounds", "", in, and(le(intLit(0), lo), le(lo, hi), le(hi, n)), "array slice bounds in range")
		return mkSlc(p.Base, lo, sub(hi, lo), sub(n, lo))
	}
	ex.unsupportedf("slice of %s", in.X.Type())
	return nil
}

func intBits(t types.Type) (bits int, signed bool, ok bool) {
	b, isb := types.Unalias(t).Underlying().(*types.Basic)
	if !isb || b.Info()&types.IsInteger == 0 {
		return 0, false, false
	}
	switch b.Kind() {
	case types.Int8:
		return 8, true, true
	case types.Int16:
		return 16, true, true
	case types.Int32:
		return 32, true, true
	case types.Int, types.Int64:
		return 64, true, true
	case types.Uint8:
		return 8, false, true
	case types.Uint16:
		return 16, false, true
	case types.Uint32:
		return 32, false, true
	case types.Uint, types.Uint64, types.Uintptr:
		return 64, false, true
	}
	return 64, true, true
}

func pow2(n int) string {
	switch n {
	case 7:
		return "128"
	case 8:
		return "256"
	case 15:
		return "32768"
	case 16:
		return "65536"
	case 31:
		return "2147483648"
	case 32:
		return "4294967296"
	case 63:
		return "9223372036854775808"
	case 64:
		return "18446744073709551616"
	}
	return "0"
}

func (ex *Exec) convert(st *State, in *ssa.Convert) Value {
	from, to := in.X.Type(), in.Type()
	xv := ex.val(st, in.X)
	fs, ts := ex.w.sortOf(from, ex.d), ex.w.sortOf(to, ex.d)
	switch {
	case fs == SInt && ts == SInt:
		x := ex.term(st, xv)
		fb, fsg, ok1 := intBits(from)
		tb, tsg, ok2 := intBits(to)
		if !ok1 || !ok2 {
			return x // pointer-ish conversions
		}
		// identity when the source range fits the target
		if (fsg == tsg && fb <= tb) || (!fsg && tsg && fb < tb) {
			return x
		}
		if !tsg {
			return app(SInt, "mod", x, mk(SInt, pow2(tb)))
		}
		h := mk(SInt, pow2(tb-1))
		return sub(app(SInt, "mod", add(x, h), mk(SInt, pow2(tb))), h)
	case fs == SInt && ts == SFlt:
		return app(SFlt, "i2f", ex.term(st, xv))
	case fs == SFlt && ts == SInt:
		r := app(SInt, "f2i", ex.term(st, xv))
		st.assume(rangeAssume(to, r))
		ex.note("float-to-integer conversion treated as an uninterpreted truncation (f2i)")
		return r
	case fs == SFlt && ts == SFlt:
		ex.note("float32/float64 conversion treated as identity")
		return ex.term(st, xv)
	case fs == SStr && ts == SStr:
		return ex.term(st, xv)
	case fs == SStr && ts == SSlc:
		x := ex.term(st, xv)
		et := types.Unalias(to).Underlying().(*types.Slice).Elem()
		base := ex.newRef(st, "conv")
		name, h := ex.slcHeap(st, SInt)
		arr := ex.fresh("convarr", arraySort(SInt, SInt))
		if kindOfType(et) == 8 { // []byte
			n := app(SInt, "str_len", x)
			st.assume(eq(app(SStr, "arr2str", arr, intLit(0), n), x))
			ex.setHeap(st, name, sto(h, base, arr))
			return mkSlc(base, intLit(0), n, n)
		}
		// []rune
		n := app(SInt, "str_runecount", x)
		st.assume(eq(arr, app(arraySort(SInt, SInt), "str_runes", x)))
		ex.setHeap(st, name, sto(h, base, arr))
		return mkSlc(base, intLit(0), n, n)
	case fs == SSlc && ts == SStr:
		x := ex.term(st, xv)
		et := types.Unalias(from).Underlying().(*types.Slice).Elem()
		_, h := ex.slcHeap(st, SInt)
		arr := sel(h, sBase(x), arraySort(SInt, SInt))
		if kindOfType(et) == 8 {
			return app(SStr, "arr2str", arr, sOff(x), sLen(x))
		}
		ex.d.axiom("runes2str", `(assert (forall ((s Str) (a Int) (b Int)) (! (=> (and (<= 0 a) (<= a b) (<= b (str_runecount s))) (and (= (str_runecount (runes2str (str_runes s) a (- b a))) (- b a)) (<= (str_len (runes2str (str_runes s) a (- b a))) (str_len s)))) :pattern ((runes2str (str_runes s) a (- b a))))))
(assert (forall ((s Str)) (! (= (runes2str (str_runes s) 0 (str_runecount s)) s) :pattern ((str_runes s)))))`)
		return app(SStr, "runes2str", arr, sOff(x), sLen(x))
	case fs == SInt && ts == SStr:
		ex.d.declFun("rune2str", []string{SInt}, SStr)
		return app(SStr, "rune2str", ex.term(st, xv))
	case fs == ts:
		return xv
	}
	ex.unsupportedf("conversion %s -> %s", from, to)
	return nil
}

func (ex *Exec) typeAssert(st *State, in *ssa.TypeAssert) Value {
	x := ex.term(st, ex.val(st, in.X))
	tid := app(SInt, "typeof", x)
	var ok, v Term
	if types.IsInterface(in.AssertedType) {
		it := in.AssertedType
		if types.Unalias(it).Underlying().(*types.Interface).NumMethods() == 0 {
			ok = not(eq(x, nilVal))
		} else {
			ok = and(not(eq(x, nilVal)), ex.implementsPred(it, tid))
		}
		v = x
	} else {
		id := ex.w.typeID(in.AssertedType, ex.d)
		ok = eq(tid, intLit(int64(id)))
		v = ex.w.unbox(in.AssertedType, x, ex.d)
	}
	if in.CommaOk {
		zero := ex.zero(in.AssertedType)
		return TupleV{ite(ok, v, zero), ok}
	}
	ex.oblige(st, "assert", "", in, ok, fmt.Sprintf("type assertion to %s succeeds", typeString(in.AssertedType)))
	st.assume(ok)
	return v
}

func (ex *Exec) makeMap(st *State, in *ssa.MakeMap) Value {
	mt := types.Unalias(in.Type()).Underlying().(*types.Map)
	hn, _, has, _, ks, _ := ex.mapHeaps(st, mt)
	r := ex.newRef(st, "map")
	ex.setHeap(st, hn, sto(has, r, mk(arraySort(ks, SBool), fmt.Sprintf("((as const %s) false)", arraySort(ks, SBool)))))
	return r
}

func (ex *Exec) makeSlice(st *State, in *ssa.MakeSlice) Value {
	stp := types.Unalias(in.Type()).Underlying().(*types.Slice)
	es := ex.w.sortOf(stp.Elem(), ex.d)
	ln := ex.term(st, ex.val(st, in.Len))
	cp := ex.term(st, ex.val(st, in.Cap))
	ex.oblige(st, "make", "", in, and(le(intLit(0), ln), le(ln, cp), app(SBool, "in_i64", cp)), "make: 0 <= len <= cap")
	base := ex.newRef(st, "slice")
	name, h := ex.slcHeap(st, es)
	as := arraySort(SInt, es)
	ex.setHeap(st, name, sto(h, base, ex.constArr(as, ex.zero(stp.Elem()))))
	return mkSlc(base, intLit(0), ln, cp)
}

func (ex *Exec) mapUpdate(st *State, in *ssa.MapUpdate) {
	mt := types.Unalias(in.Map.Type()).Underlying().(*types.Map)
	m := ex.term(st, ex.val(st, in.Map))
	k := ex.term(st, ex.val(st, in.Key))
	v := ex.term(st, ex.val(st, in.Value))
	ex.oblige(st, "nil", "", in, not(eq(m, intLit(0))), "assignment to entry in non-nil map")
	if k.Sort == SVal {
		ex.oblige(st, "cmp", "", in, app(SBool, "vcomparable", k), "map key of interface type is comparable (hashable) in depth")
	}
	hn, vn, has, val, ks, vs := ex.mapHeaps(st, mt)
	ex.frameWrite(st, in, hn, ge(m, st.alloc0))
	ex.setHeap(st, hn, sto(has, m, sto(sel(has, m, arraySort(ks, SBool)), k, tTrue)))
	ex.setHeap(st, vn, sto(val, m, sto(sel(val, m, arraySort(ks, vs)), k, v)))
}

func (ex *Exec) rangeInit(st *State, in *ssa.Range) Value {
	x := ex.term(st, ex.val(st, in.X))
	key := "iter$" + in.Name() + "$" + shortName(in.Parent().String())
	switch t := types.Unalias(in.X.Type()).Underlying().(type) {
	case *types.Map:
		ks := ex.w.sortOf(t.Key(), ex.d)
		as := arraySort(ks, SBool)
		st.ghosts[key] = mk(as, fmt.Sprintf("((as const %s) false)", as))
		st.gsorts[key] = as
		return &IterV{Map: x, MapT: t, Key: key}
	case *types.Basic:
		st.ghosts[key] = intLit(0)
		st.gsorts[key] = SInt
		return &IterV{IsString: true, Str: x, Key: key}
	}
	ex.unsupportedf("range over %s", in.X.Type())
	return nil
}

func (ex *Exec) next(st *State, in *ssa.Next) Value {
	it, ok := ex.val(st, in.Iter).(*IterV)
	if !ok {
		ex.unsupportedf("next on unknown iterator")
	}
	if it.IsString {
		pos := st.ghosts[it.Key]
		n := app(SInt, "str_len", it.Str)
		okT := lt(pos, n)
		ex.d.declFun("str_runeat", []string{SStr, SInt}, SInt)
		ex.d.declFun("str_runewidth", []string{SStr, SInt}, SInt)
		w := app(SInt, "str_runewidth", it.Str, pos)
		st.assume(implies(okT, and(le(intLit(1), w), le(w, intLit(4)), le(add(pos, w), n))))
		r := app(SInt, "str_runeat", it.Str, pos)
		st.assume(and(le(intLit(0), r), le(r, intLit(1114111))))
		st.ghosts[it.Key] = ite(okT, add(pos, w), pos)
		return TupleV{okT, pos, r}
	}
	mt := it.MapT
	ks := ex.w.sortOf(mt.Key(), ex.d)
	visited := st.ghosts[it.Key]
	okT := ex.fresh("next_ok", SBool)
	k := ex.freshOfType(st, "next_k", mt.Key())
	has := ex.mapHas(st, mt, it.Map, k)
	st.assume(implies(okT, and(has, not(sel(visited, k, SBool)))))
	st.assume(implies(not(okT), mk(SBool, fmt.Sprintf("(forall ((k %s)) (! (=> %s (select %s k)) :pattern ((select %s k))))", ks,
		ex.mapHas(st, mt, it.Map, mk(ks, "k")).S, visited.S, visited.S))))
	v := ex.mapGet(st, mt, it.Map, k)
	ex.assumeLoaded(st, mt.Elem(), v)
	st.ghosts[it.Key] = ite(okT, sto(visited, k, tTrue), visited)
	ex.note("map iteration yields the keys in an arbitrary order (each exactly once); mutation during iteration not modelled")
	return TupleV{okT, k, v}
}

// ---------------------------------------------------------------------------
// builtins

func (ex *Exec) callBuiltin(st *State, in ssa.CallInstruction, b *ssa.Builtin, args []ssa.Value) Value {
	av := func(i int) Term { return ex.term(st, ex.val(st, args[i])) }
	switch b.Name() {
	case "len":
		x := av(0)
		switch t := types.Unalias(args[0].Type()).Underlying().(type) {
		case *types.Basic:
			n := app(SInt, "str_len", x)
			// a string that exists at run time is shorter than 2^62 bytes (a fact about this value)
			st.assume(le(n, intLit(4611686018427387904)))
			return n
		case *types.Slice:
			return sLen(x)
		case *types.Map:
			return ex.mapCard(st, t, x)
		case *types.Array:
			return intLit(t.Len())
		}
	case "cap":
		if _, ok := types.Unalias(args[0].Type()).Underlying().(*types.Slice); ok {
			return sCap(av(0))
		}
	case "append":
		return ex.appendOp(st, in, args)
	case "copy":
		return ex.copyOp(st, in, args)
	case "delete":
		mt := types.Unalias(args[0].Type()).Underlying().(*types.Map)
		m, k := av(0), av(1)
		hn, _, has, _, ks, _ := ex.mapHeaps(st, mt)
		ex.frameWrite(st, in.(ssa.Instruction), hn, ge(m, st.alloc0))
		ex.setHeap(st, hn, ite(eq(m, intLit(0)), has, sto(has, m, sto(sel(has, m, arraySort(ks, SBool)), k, tFalse))))
		return mk(SUnit, "unit")
	case "min", "max":
		x, y := av(0), av(1)
		if x.Sort == SInt {
			if b.Name() == "min" {
				return app(SInt, "imin", x, y)
			}
			return app(SInt, "imax", x, y)
		}
	case "print", "println":
		return mk(SUnit, "unit")
	case "recover":
		ex.note("recover() modelled as returning nil (panics are tracked by the panic-effect obligations instead)")
		return nilVal
	}
	ex.unsupportedf("builtin %s on %s", b.Name(), args[0].Type())
	return nil
}

func (ex *Exec) appendOp(st *State, in ssa.CallInstruction, args []ssa.Value) Value {
	stp := types.Unalias(args[0].Type()).Underlying().(*types.Slice)
	es := ex.w.sortOf(stp.Elem(), ex.d)
	as := arraySort(SInt, es)
	s := ex.term(st, ex.val(st, args[0]))
	var tl Term // number of appended elements
	var elemAt func(j Term) Term
	if len(args) < 2 {
		return s
	}
	if _, isStr := types.Unalias(args[1].Type()).Underlying().(*types.Basic); isStr {
		str := ex.term(st, ex.val(st, args[1]))
		tl = app(SInt, "str_len", str)
		elemAt = func(j Term) Term { return app(SInt, "str_at", str, j) }
	} else {
		t := ex.term(st, ex.val(st, args[1]))
		tl = sLen(t)
		elemAt = func(j Term) Term { return ex.slcElem(st, t, j, es) }
	}
	site := in.(ssa.Instruction)
	name, h := ex.slcHeap(st, es)
	newLen := add(sLen(s), tl)
	single := tl.S == "1"
	// Non-forking encoding with a result symbol r and a new backing array.
	r := ex.fresh("app", SSlc)
	inplace := le(newLen, sCap(s))
	nb := ex.newRef(st, "appbase")
	st.assume(eq(slcLen(r), newLen))
	st.assume(ite(inplace,
		and(eq(slcBase(r), sBase(s)), eq(slcOff(r), sOff(s)), eq(slcCap(r), sCap(s))),
		and(eq(slcBase(r), nb), eq(slcOff(r), intLit(0)), ge(slcCap(r), newLen), app(SBool, "in_i64", slcCap(r)))))
	ex.frameWrite(st, site, name, or(not(inplace), ge(sBase(s), st.alloc0), eq(tl, intLit(0))))
	oldArr := sel(h, sBase(s), as)
	var newArr Term
	if single {
		e0 := elemAt(intLit(0))
		// in place: one store; fresh: copy then store
		cp := ex.fresh("apparr", as)
		st.assume(mk(SBool, fmt.Sprintf("(forall ((j Int)) (! (=> (and (<= 0 j) (< j %s)) (= (select %s j) (select %s %s))) :pattern ((select %s j))))",
			sLen(s).S, cp.S, oldArr.S, eix(sOff(s), mk(SInt, "j")).S, cp.S)))
		newArr = ite(inplace, sto(oldArr, eix(sOff(s), sLen(s)), e0), sto(cp, sLen(s), e0))
	} else {
		na := ex.fresh("apparr", as)
		jt := mk(SInt, "j")
		jv := mk(SInt, "j")
		dstJ := eix(slcOff(r), jv)
		st.assume(mk(SBool, fmt.Sprintf("(forall ((j Int)) (! (=> (and (<= 0 j) (< j %s)) (= (select %s %s) (select %s %s))) :pattern ((select %s %s))))",
			sLen(s).S, na.S, dstJ.S, oldArr.S, eix(sOff(s), jv).S, na.S, dstJ.S)))
		dstT := eix(slcOff(r), add(sLen(s), jv))
		st.assume(mk(SBool, fmt.Sprintf("(forall ((j Int)) (=> (and (<= 0 j) (< j %s)) (= (select %s %s) %s)))",
			tl.S, na.S, dstT.S, elemAt(jt).S)))
		st.assume(implies(inplace, mk(SBool, fmt.Sprintf("(forall ((j Int)) (! (=> (or (< j (+ %s %s)) (>= j (+ (+ %s %s) %s))) (= (select %s j) (select %s j))) :pattern ((select %s j))))",
			sOff(s).S, sLen(s).S, sOff(s).S, sLen(s).S, tl.S, na.S, oldArr.S, na.S))))
		newArr = na
	}
	ex.setHeap(st, name, sto(h, slcBase(r), newArr))
	ex.assumeTypeFacts(st, stp, r)
	return r
}

func (ex *Exec) copyOp(st *State, in ssa.CallInstruction, args []ssa.Value) Value {
	stp := types.Unalias(args[0].Type()).Underlying().(*types.Slice)
	es := ex.w.sortOf(stp.Elem(), ex.d)
	as := arraySort(SInt, es)
	d := ex.term(st, ex.val(st, args[0]))
	var sl Term
	var elemAt func(j Term) Term
	if _, isStr := types.Unalias(args[1].Type()).Underlying().(*types.Basic); isStr {
		str := ex.term(st, ex.val(st, args[1]))
		sl = app(SInt, "str_len", str)
		elemAt = func(j Term) Term { return app(SInt, "str_at", str, j) }
	} else {
		s := ex.term(st, ex.val(st, args[1]))
		sl = sLen(s)
		_, h0 := ex.slcHeap(st, es)
		elemAt = func(j Term) Term { return sel(sel(h0, sBase(s), as), eix(sOff(s), j), es) }
	}
	n := app(SInt, "imin", sLen(d), sl)
	name, h := ex.slcHeap(st, es)
	ex.frameWrite(st, in.(ssa.Instruction), name, or(ge(sBase(d), st.alloc0), eq(n, intLit(0))))
	oldArr := sel(h, sBase(d), as)
	na := ex.fresh("cparr", as)
	jt := mk(SInt, "(- j "+sOff(d).S+")")
	st.assume(mk(SBool, fmt.Sprintf("(forall ((j Int)) (! (= (select %s j) (ite (and (<= %s j) (< j (+ %s %s))) %s (select %s j))) :pattern ((select %s j))))",
		na.S, sOff(d).S, sOff(d).S, n.S, elemAt(jt).S, oldArr.S, na.S)))
	ex.setHeap(st, name, sto(h, sBase(d), na))
	return n
}
