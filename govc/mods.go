package main

// Inference of heap write sets (which abstract heaps a function may modify).
// A call to a function without an explicit assigns clause forgets exactly the
// heaps in the callee's inferred set. Value true = may write existing objects,
// false = only allocates (existing objects unchanged).

import (
	"go/types"
	"sort"
	"strings"

	"golang.org/x/tools/go/ssa"
)

type effects struct {
	heaps map[string]bool
	cells map[*ssa.Alloc]bool
}

func (w *World) scratch() *Decls {
	if w.scratchD == nil {
		w.scratchD = newDecls()
	}
	return w.scratchD
}

func (w *World) modsOf(fn *ssa.Function) map[string]bool {
	if w.mods == nil {
		w.computeMods()
	}
	if m, ok := w.mods[fn]; ok {
		return m
	}
	return map[string]bool{"*": true}
}

func addMod(m map[string]bool, name string, write bool) bool {
	old, ok := m[name]
	if !ok || (write && !old) {
		m[name] = write
		return true
	}
	return false
}

func (w *World) computeMods() {
	w.computingMods = true
	defer func() { w.computingMods = false }()
	w.mods = map[*ssa.Function]map[string]bool{}
	var fns []*ssa.Function
	for _, fn := range w.allFns {
		if len(fn.Blocks) > 0 && (w.inRepo(fn) || fn.Synthetic != "") {
			fns = append(fns, fn)
			w.mods[fn] = map[string]bool{}
		}
	}
	// local effects
	for _, fn := range fns {
		m := w.mods[fn]
		for _, b := range fn.Blocks {
			for _, in := range b.Instrs {
				w.instrMods(in, m)
			}
		}
	}
	// propagate over calls to a fixpoint
	for changed := true; changed; {
		changed = false
		for _, fn := range fns {
			m := w.mods[fn]
			for _, b := range fn.Blocks {
				for _, in := range b.Instrs {
					ci, ok := in.(ssa.CallInstruction)
					if !ok {
						continue
					}
					for n, wr := range w.callMods(ci.Common()) {
						if addMod(m, n, wr) {
							changed = true
						}
					}
				}
			}
		}
	}
}

// callMods: effect of one call, from contracts (assigns), inference or "*".
func (w *World) callMods(c *ssa.CallCommon) map[string]bool {
	if _, ok := c.Value.(*ssa.Builtin); ok {
		return nil
	}
	if c.IsInvoke() {
		return w.invokeMods(c.Value.Type(), c.Method.Name())
	}
	if callee := c.StaticCallee(); callee != nil {
		switch shortName(callee.String()) {
		case "(*sync.Once).Do":
			// runs its argument once and sets the flag (see Exec.intrinsic)
			m := map[string]bool{}
			if len(c.Args) == 2 {
				if mc, ok := c.Args[1].(*ssa.MakeClosure); ok {
					for n, wr := range w.fnMods(mc.Fn.(*ssa.Function)) {
						addMod(m, n, wr)
					}
				} else {
					m["*"] = true
				}
				if ff, ok := c.Args[0].(*ssa.FieldAddr); ok {
					w.fieldMod(ff, m, true)
				} else {
					m["P$Bool"] = true
				}
			}
			return m
		case "io.WriteString", "fmt.Fprintf", "fmt.Fprint", "fmt.Fprintln":
			// modelled as: p := []byte(formatted); w.Write(p)   (see Exec.intrinsic)
			m := map[string]bool{"S$Int": false}
			if len(c.Args) > 0 {
				for n, wr := range w.invokeMods(c.Args[0].Type(), "Write") {
					addMod(m, n, wr)
				}
			}
			return m
		}
		return w.fnMods(callee)
	}
	if mc, ok := c.Value.(*ssa.MakeClosure); ok {
		return w.fnMods(mc.Fn.(*ssa.Function))
	}
	if con := w.cons["functype "+typeString(c.Value.Type())]; con != nil && (con.Pure || con.HasAssign) {
		return assignsToMods(con)
	}
	return map[string]bool{"*": true}
}

func assignsToMods(con *Contract) map[string]bool {
	m := map[string]bool{}
	if con.Pure {
		return m
	}
	for _, a := range con.Assigns {
		switch {
		case a == "writer":
			m["W$total"] = true
		case strings.HasPrefix(a, "alloc "):
			m[strings.TrimPrefix(a, "alloc ")] = false
		case strings.HasPrefix(a, "*") && len(a) > 1:
			// parameter-designated lvalue: unknown heap from here; callers handle precisely
			m["*"] = true
		default:
			m[a] = true
		}
	}
	return m
}

func (w *World) fnMods(fn *ssa.Function) map[string]bool {
	if w.mods == nil && !w.computingMods {
		w.computeMods() // never answer from a half-built table: results must not depend on call order
	}
	sel := shortName(fn.String())
	if con := w.cons[sel]; con != nil && (con.Pure || con.HasAssign) {
		m := assignsToMods(con)
		if m["*"] && len(con.Assigns) > 0 {
			// `*param` designators only: treat as effect on the caller-supplied location
			onlyDesignators := true
			for _, a := range con.Assigns {
				if !(strings.HasPrefix(a, "*") && len(a) > 1) {
					onlyDesignators = false
				}
			}
			if onlyDesignators && con.External {
				delete(m, "*")
			}
		}
		return m
	}
	if m, ok := w.mods[fn]; ok {
		return m
	}
	if !w.inRepo(fn) {
		return nil // external without spec: assumed effect-free on repo heaps (listed as assumption at use)
	}
	return map[string]bool{"*": true}
}

func (w *World) invokeMods(ifaceT types.Type, name string) map[string]bool {
	m := map[string]bool{}
	if ic := w.ifaceFor(ifaceT, name); ic != nil {
		im := ic.Methods[name]
		if im.Pure || im.HasAssign {
			return assignsToMods(&im.Contract)
		}
	}
	if con := w.cons["("+typeString(ifaceT)+")."+name]; con != nil && (con.Pure || con.HasAssign) {
		for n, wr := range assignsToMods(con) {
			addMod(m, n, wr)
		}
	} else if named, ok := types.Unalias(ifaceT).(*types.Named); !ok || named.Obj().Pkg() == nil || !strings.HasPrefix(named.Obj().Pkg().Path(), modPath) {
		// external interface without spec
		if con == nil {
			m["*"] = true
		}
	}
	for _, sel := range w.implementers(ifaceT, name) {
		if fn := w.fns[sel]; fn != nil {
			for n, wr := range w.fnMods(fn) {
				addMod(m, n, wr)
			}
		}
	}
	return m
}

// rootOf walks an address back to its root value and first field step.
func rootOf(addr ssa.Value) (root ssa.Value, firstField *ssa.FieldAddr) {
	for {
		switch a := addr.(type) {
		case *ssa.FieldAddr:
			firstField = a
			addr = a.X
		default:
			return addr, firstField
		}
	}
}

// isLocalFresh: v is an object allocated by this very code region (scope == nil: anywhere in
// the function; otherwise the allocating instruction must lie in a block accepted by scope).
// Writes to such an object are "allocation only" for an observer that starts before the region.
func isLocalFresh(v ssa.Value, scope func(*ssa.BasicBlock) bool) bool {
	switch x := v.(type) {
	case *ssa.Alloc, *ssa.MakeSlice, *ssa.MakeMap:
		if scope == nil {
			return true
		}
		if in, ok := v.(ssa.Instruction); ok && in.Block() != nil {
			return scope(in.Block())
		}
		return false
	case *ssa.Slice:
		return isLocalFresh(x.X, scope)
	}
	return false
}

func (w *World) instrMods(in ssa.Instruction, m map[string]bool) {
	w.instrModsIn(in, m, nil)
}

// instrModsIn: as instrMods, but an object counts as fresh only when allocated inside scope
// (used for loop bodies: an object allocated before the loop and written in it is a write).
func (w *World) instrModsIn(in ssa.Instruction, m map[string]bool, scope func(*ssa.BasicBlock) bool) {
	d := w.scratch()
	switch in := in.(type) {
	case *ssa.Store:
		root, ff := rootOf(in.Addr)
		switch r := root.(type) {
		case *ssa.Alloc:
			if ff != nil && r.Heap {
				// fresh heap object: allocation only
				w.fieldMod(ff, m, !isLocalFresh(r, scope))
			}
			if ff == nil && r.Heap {
				// whole-object store to a heap-allocated variable (e.g. one captured by a
				// closure that escapes): a write to its pointer-cell heap / field heaps
				et := r.Type().(*types.Pointer).Elem()
				wr := !isLocalFresh(r, scope)
				if st := structOf(et); st != nil && strings.HasPrefix(w.sortOf(et, d), "S$") {
					for i := 0; i < st.NumFields(); i++ {
						addMod(m, "F$"+structKey(et)+"$"+st.Field(i).Name(), wr)
					}
				} else if _, isArr := types.Unalias(et).Underlying().(*types.Array); !isArr {
					addMod(m, "P$"+w.sortOf(et, d), wr)
				}
			}
			return
		case *ssa.Global:
			addMod(m, "G!"+r.String(), true)
			return
		case *ssa.IndexAddr:
			es := ""
			switch t := types.Unalias(r.X.Type()).Underlying().(type) {
			case *types.Slice:
				es = w.sortOf(t.Elem(), d)
			case *types.Pointer:
				if at, ok := types.Unalias(t.Elem()).Underlying().(*types.Array); ok {
					es = w.sortOf(at.Elem(), d)
				}
			}
			if es != "" {
				addMod(m, "S$"+es, !isLocalFresh(r.X, scope))
			}
			return
		case *ssa.FreeVar:
			if ff != nil {
				w.fieldMod(ff, m, true)
			} else {
				addMod(m, "P$"+w.sortOf(r.Type().(*types.Pointer).Elem(), d), true)
			}
			return
		}
		if ff != nil {
			w.fieldMod(ff, m, true)
			return
		}
		if pt, ok := types.Unalias(in.Addr.Type()).Underlying().(*types.Pointer); ok {
			if st := structOf(pt.Elem()); st != nil && strings.HasPrefix(w.sortOf(pt.Elem(), d), "S$") {
				for i := 0; i < st.NumFields(); i++ {
					addMod(m, "F$"+structKey(pt.Elem())+"$"+st.Field(i).Name(), true)
				}
				return
			}
			addMod(m, "P$"+w.sortOf(pt.Elem(), d), true)
			// a pointer of unknown origin to a non-struct value may designate a struct field of
			// that type (the executor forgets those field heaps at such a store, see Exec.store)
			for _, hn := range w.fieldHeapsOfType(pt.Elem()) {
				addMod(m, hn, true)
			}
		}
	case *ssa.Alloc:
		if !in.Heap {
			return
		}
		et := in.Type().(*types.Pointer).Elem()
		if st := structOf(et); st != nil && strings.HasPrefix(w.sortOf(et, d), "S$") {
			for i := 0; i < st.NumFields(); i++ {
				addMod(m, "F$"+structKey(et)+"$"+st.Field(i).Name(), false)
			}
		} else if at, ok := types.Unalias(et).Underlying().(*types.Array); ok {
			addMod(m, "S$"+w.sortOf(at.Elem(), d), false)
		} else {
			addMod(m, "P$"+w.sortOf(et, d), false)
		}
	case *ssa.MakeSlice:
		if st, ok := types.Unalias(in.Type()).Underlying().(*types.Slice); ok {
			addMod(m, "S$"+w.sortOf(st.Elem(), d), false)
		}
	case *ssa.MakeMap:
		mt, ok := types.Unalias(in.Type()).Underlying().(*types.Map)
		if !ok {
			return
		}
		ks, vs := w.sortOf(mt.Key(), d), w.sortOf(mt.Elem(), d)
		addMod(m, "M$has$"+ks+"$"+vs, false)
		addMod(m, "M$val$"+ks+"$"+vs, false)
	case *ssa.MapUpdate:
		mt, ok := types.Unalias(in.Map.Type()).Underlying().(*types.Map)
		if !ok {
			addMod(m, "*", true)
			return
		}
		ks, vs := w.sortOf(mt.Key(), d), w.sortOf(mt.Elem(), d)
		wr := !isLocalFresh(in.Map, scope)
		addMod(m, "M$has$"+ks+"$"+vs, wr)
		addMod(m, "M$val$"+ks+"$"+vs, wr)
	case *ssa.Convert:
		// string <-> slice conversions allocate
		if _, ok := types.Unalias(in.Type()).Underlying().(*types.Slice); ok {
			addMod(m, "S$Int", false)
		}
	case ssa.CallInstruction:
		c := in.Common()
		if bi, ok := c.Value.(*ssa.Builtin); ok {
			switch bi.Name() {
			case "append":
				if st, ok := types.Unalias(c.Args[0].Type()).Underlying().(*types.Slice); ok {
					addMod(m, "S$"+w.sortOf(st.Elem(), d), true)
				} else {
					addMod(m, "*", true)
				}
			case "copy":
				if st, ok := types.Unalias(c.Args[0].Type()).Underlying().(*types.Slice); ok {
					addMod(m, "S$"+w.sortOf(st.Elem(), d), !isLocalFresh(c.Args[0], scope))
				} else {
					addMod(m, "*", true)
				}
			case "delete":
				if mt, ok := types.Unalias(c.Args[0].Type()).Underlying().(*types.Map); ok {
					ks, vs := w.sortOf(mt.Key(), d), w.sortOf(mt.Elem(), d)
					addMod(m, "M$has$"+ks+"$"+vs, true)
				} else {
					addMod(m, "*", true)
				}
			}
		}
	}
}

func (w *World) fieldMod(ff *ssa.FieldAddr, m map[string]bool, write bool) {
	pt := types.Unalias(ff.X.Type()).Underlying().(*types.Pointer)
	st := structOf(pt.Elem())
	if st == nil {
		return
	}
	addMod(m, "F$"+structKey(pt.Elem())+"$"+st.Field(ff.Field).Name(), write)
}

func modNames(m map[string]bool) []string {
	var xs []string
	for n, wr := range m {
		if wr {
			xs = append(xs, n)
		} else {
			xs = append(xs, n+"(alloc)")
		}
	}
	sort.Strings(xs)
	return xs
}
