package main

import (
	"fmt"
	"go/constant"
	"go/token"
	"go/types"
	"os"
	"sort"
	"strings"
	"sync"

	"golang.org/x/tools/go/ssa"
)

type Loop struct {
	header  *ssa.BasicBlock
	body    map[*ssa.BasicBlock]bool
	ordinal int
}

type LoopInfo struct {
	byHeader map[*ssa.BasicBlock]*Loop
	loops    []*Loop
}

func computeLoops(fn *ssa.Function) *LoopInfo {
	li := &LoopInfo{byHeader: map[*ssa.BasicBlock]*Loop{}}
	for _, b := range fn.Blocks {
		for _, h := range b.Succs {
			if h.Dominates(b) {
				l := li.byHeader[h]
				if l == nil {
					l = &Loop{header: h, body: map[*ssa.BasicBlock]bool{h: true}}
					li.byHeader[h] = l
					li.loops = append(li.loops, l)
				}
				// reverse reachability from b up to h
				var stack []*ssa.BasicBlock
				if !l.body[b] {
					l.body[b] = true
					stack = append(stack, b)
				}
				for len(stack) > 0 {
					x := stack[len(stack)-1]
					stack = stack[:len(stack)-1]
					for _, p := range x.Preds {
						if !l.body[p] {
							l.body[p] = true
							stack = append(stack, p)
						}
					}
				}
			}
		}
	}
	sort.Slice(li.loops, func(i, j int) bool { return li.loops[i].header.Index < li.loops[j].header.Index })
	for i, l := range li.loops {
		l.ordinal = i + 1
	}
	return li
}

type abortPath struct{ reason string }

// Exec verifies one function against its contract.
type Exec struct {
	w              *World
	fn             *ssa.Function
	sel            string
	con            *Contract
	d              *Decls
	obs            []*Obligation
	entry          *State
	ifacePreds     map[string]types.Type
	assumptions    map[string]bool
	unsupported    map[string]bool
	paths          int
	maxPaths       int
	loopInfos      map[*ssa.Function]*LoopInfo
	strLits        map[string]Term
	siteOrd        map[ssa.Instruction]int
	kindCount      map[string]int
	coverCount     map[string]int
	pendingFrames  []callFrame
	deferFrames    bool
	ghostTypes     map[string]types.Type
	lastLoopMods   map[string]bool
	lastLoopCells  map[*ssa.Alloc]bool
	lastLoopGhosts map[string]bool
	obSeen         map[string]bool
	callOrds       map[*ssa.Function]map[ssa.Instruction]int
	returns        int
	safetyOnly     bool
	uncontracted   map[string]bool
	specErrors     map[string]bool
	entryBinds     map[string]TT
	entryPC        int
	atCallArgs     []Value
	topFreeVars    []Value
	linkSeen       map[string]bool
	lastFrame      *Frame
	lastRet        ssa.Instruction
	stops          []*stopPoint
	ipdoms         map[*ssa.Function]map[*ssa.BasicBlock]*ssa.BasicBlock
}

type arrival struct {
	st   *State
	from *ssa.BasicBlock
}

type stopPoint struct {
	block    *ssa.BasicBlock
	depth    int
	fn       *ssa.Function
	arrivals []arrival
}

func newExec(w *World, fn *ssa.Function, sel string, con *Contract) *Exec {
	return &Exec{w: w, fn: fn, sel: sel, con: con, d: newDecls(), ifacePreds: map[string]types.Type{}, assumptions: map[string]bool{},
		unsupported: map[string]bool{}, maxPaths: 4000, loopInfos: map[*ssa.Function]*LoopInfo{}, strLits: map[string]Term{},
		siteOrd: map[ssa.Instruction]int{}, kindCount: map[string]int{}, obSeen: map[string]bool{}, callOrds: map[*ssa.Function]map[ssa.Instruction]int{}}
}

func (ex *Exec) loops(fn *ssa.Function) *LoopInfo {
	li := ex.loopInfos[fn]
	if li == nil {
		li = computeLoops(fn)
		ex.loopInfos[fn] = li
	}
	return li
}

func (ex *Exec) unsupportedf(format string, a ...any) {
	msg := fmt.Sprintf(format, a...)
	ex.unsupported[msg] = true
	panic(abortPath{msg})
}

func (ex *Exec) note(format string, a ...any) { ex.assumptions[fmt.Sprintf(format, a...)] = true }

func (ex *Exec) pos(p token.Pos) string {
	if !p.IsValid() {
		return ""
	}
	q := ex.w.prog.Fset.Position(p)
	return fmt.Sprintf("%s:%d", strings.TrimPrefix(q.Filename, ex.w.repoDir+"/"), q.Line)
}

// oblige records an obligation: under the current path condition, goal must hold.
func (ex *Exec) oblige(st *State, kind, label string, site ssa.Instruction, goal Term, descr string) {
	if goal.S == "true" {
		// trivially discharged obligations are still counted (cheap), so that a
		// change making them non-trivial shows up as a new failing obligation.
	}
	ord := 0
	if site != nil {
		key := kind
		if o, ok := ex.siteOrd[site]; ok {
			ord = o
		} else {
			ex.kindCount[key+"@"+shortName(site.Parent().String())]++
			ord = ex.kindCount[key+"@"+shortName(site.Parent().String())]
			ex.siteOrd[site] = ord
		}
	} else {
		ex.kindCount[kind+"/"+label]++
		ord = ex.kindCount[kind+"/"+label]
	}
	name := fmt.Sprintf("%s/%s#%d", ex.sel, kind, ord)
	if site != nil && site.Parent() != ex.fn {
		name = fmt.Sprintf("%s/%s@%s#%d", ex.sel, kind, shortName(site.Parent().String()), ord)
	}
	if label != "" {
		name += ":" + label
	}
	pc := append([]Term(nil), st.pc...)
	key := name + "|" + goal.S + "|" + joinTerms(pc)
	if ex.obSeen[key] {
		return
	}
	ex.obSeen[key] = true
	p := ""
	if site != nil {
		p = ex.pos(site.Pos())
	}
	ob := &Obligation{Name: name, Kind: kind, Label: label, Func: ex.sel, PC: pc, Goal: goal, Pos: p, Descr: descr, Decls: ex.d}
	if ex.con != nil {
		ob.Props = ex.con.Props
	}
	ex.obs = append(ex.obs, ob)
}

func joinTerms(ts []Term) string {
	var b strings.Builder
	for _, t := range ts {
		b.WriteString(t.S)
		b.WriteByte('\n')
	}
	return b.String()
}

// ---------------------------------------------------------------------------

func (ex *Exec) strLit(s string) Term {
	if s == "" {
		return mk(SStr, "str_empty")
	}
	if t, ok := ex.strLits[s]; ok {
		return t
	}
	name := fmt.Sprintf("strlit$%d", len(ex.strLits)+1)
	var b strings.Builder
	fmt.Fprintf(&b, "(declare-fun %s () Str) ; %q\n(assert (= (str_len %s) %d))", name, s, name, len(s))
	if len(s) <= 12 {
		for i := 0; i < len(s); i++ {
			fmt.Fprintf(&b, "\n(assert (= (str_at %s %d) %d))", name, i, s[i])
		}
	}
	if len(s) == 1 {
		fmt.Fprintf(&b, "\n(assert (forall ((c Int)) (! (= (str_count %s c) (ite (= c %d) 1 0)) :pattern ((str_count %s c)))))", name, s[0], name)
	}
	ex.d.add("strlit:"+s, b.String())
	t := mk(SStr, name)
	ex.strLits[s] = t
	return t
}

func (ex *Exec) fltLit(v constant.Value) Term {
	if i, ok := constant.Int64Val(constant.ToInt(v)); ok && constant.ToInt(v).Kind() == constant.Int {
		return app(SFlt, "i2f", intLit(i))
	}
	name := smtName("flit$", v.ExactString())
	ex.d.declConst(name, SFlt)
	ex.d.axiom("flit:"+name, fmt.Sprintf("(assert (not (f_isnan %s)))", name))
	return mk(SFlt, name)
}

func (ex *Exec) constVal(c *ssa.Const) Value {
	t := c.Type()
	if c.Value == nil {
		return ex.zero(t)
	}
	switch u := types.Unalias(t).Underlying().(type) {
	case *types.Basic:
		switch {
		case u.Info()&types.IsBoolean != 0:
			return boolLit(constant.BoolVal(c.Value))
		case u.Info()&types.IsInteger != 0:
			if i, ok := constant.Int64Val(constant.ToInt(c.Value)); ok {
				return intLit(i)
			}
			if i, ok := constant.Uint64Val(constant.ToInt(c.Value)); ok {
				return uintLit(i)
			}
			return mk(SInt, constant.ToInt(c.Value).ExactString())
		case u.Info()&types.IsFloat != 0:
			return ex.fltLit(c.Value)
		case u.Info()&types.IsString != 0:
			return ex.strLit(constant.StringVal(c.Value))
		}
	}
	ex.unsupportedf("constant of type %s", t)
	return nil
}

// val returns the executor value of an SSA value in the top frame.
func (ex *Exec) val(st *State, v ssa.Value) Value {
	switch v := v.(type) {
	case *ssa.Const:
		return ex.constVal(v)
	case *ssa.Global:
		return &PtrV{Global: v, Root: v.Type().(*types.Pointer).Elem()}
	case *ssa.Function:
		return ex.funcValue(v)
	case *ssa.Builtin:
		return v
	}
	fr := st.top()
	if x, ok := fr.env[v]; ok {
		return x
	}
	if fv, ok := v.(*ssa.FreeVar); ok {
		for i, f := range fr.fn.FreeVars {
			if f == fv && i < len(fr.freeVar) {
				return fr.freeVar[i]
			}
		}
	}
	ex.unsupportedf("unbound SSA value %s (%T) in %s", v.Name(), v, fr.fn)
	return nil
}

func (ex *Exec) funcValue(fn *ssa.Function) *ClosureV {
	ex.w.sortOf(fn.Signature, ex.d)
	name := smtName("fn$", shortName(fn.String()))
	ex.d.declConst(name, "Fn")
	ex.d.axiom("fnnn:"+name, fmt.Sprintf("(assert (not (= %s fn_nil)))", name))
	return &ClosureV{Fn: fn, T: mk("Fn", name)}
}

// term converts a Value to an SMT term.
func (ex *Exec) term(st *State, v Value) Term {
	switch x := v.(type) {
	case Term:
		return x
	case *ClosureV:
		return x.T
	case *PtrV:
		if x.Cell == nil && x.Global == nil && !x.IsElem && len(x.Path) == 0 {
			return x.Base
		}
		if x.Cell == nil && x.Global == nil && !x.IsElem {
			// address of a field of a heap object: an opaque address (what is read through it
			// later is arbitrary; writes through it forget the heaps it may point into) whose
			// IDENTITY is canonical: &obj.f is fa$T$f(obj), injective and distinct per field
			ex.note("interior pointers stored as first-class values are abstracted to opaque addresses (identity kept) in %s", ex.sel)
			if len(x.Path) == 1 {
				return ex.fieldAddrTerm(x.Base, x.Root, x.Path[0])
			}
			t := ex.fresh("iptr", SInt)
			st.assume(and(gt(t, intLit(0)), lt(t, st.alloc)))
			return t
		}
		ex.unsupportedf("interior/cell pointer used as a first-class value (%s)", ex.ptrString(x))
	case TupleV:
		ex.unsupportedf("tuple used as a value")
	case nil:
		ex.unsupportedf("nil executor value")
	}
	ex.unsupportedf("value %T has no term", v)
	return Term{}
}

// fieldAddrTerm: the canonical identity of &base.f for a heap struct object.
func (ex *Exec) fieldAddrTerm(base Term, root types.Type, field int) Term {
	st := structOf(root)
	fn := smtName("fa$", structKey(root)+"$"+st.Field(field).Name())
	if !ex.d.has("fun:" + fn) {
		ex.d.declFun(fn, []string{SInt}, SInt)
		ex.d.declFun(fn+"$inv", []string{SInt}, SInt)
		if !ex.d.has("fun:fa$tag") {
			ex.d.declFun("fa$tag", []string{SInt}, SInt)
		}
		ex.d.axiom("fa:"+fn, fmt.Sprintf("(assert (forall ((b Int)) (! (and (= (%s$inv (%s b)) b) (> (%s b) 0) (= (fa$tag (%s b)) %d)) :pattern ((%s b)))))", fn, fn, fn, fn, faTagOf(fn), fn))
	}
	return app(SInt, fn, base)
}

var faTagIDs = map[string]int{}
var faTagMu sync.Mutex

func faTagOf(fn string) int {
	faTagMu.Lock()
	defer faTagMu.Unlock()
	if id, ok := faTagIDs[fn]; ok {
		return id
	}
	id := len(faTagIDs) + 1
	faTagIDs[fn] = id
	return id
}

func (ex *Exec) ptrString(p *PtrV) string {
	switch {
	case p.Cell != nil:
		return fmt.Sprintf("&cell %s%v", p.Cell.Comment, p.Path)
	case p.Global != nil:
		return fmt.Sprintf("&global %s%v", p.Global.Name(), p.Path)
	case p.IsElem:
		return fmt.Sprintf("&%s[%s]%v", p.Slc.S, p.Idx.S, p.Path)
	}
	return fmt.Sprintf("&heap %s%v", p.Base.S, p.Path)
}

// ---------------------------------------------------------------------------
// lvalues

func structOf(t types.Type) *types.Struct {
	s, _ := types.Unalias(t).Underlying().(*types.Struct)
	return s
}

// isModelStruct reports whether a struct type is modelled as an SMT datatype with
// real fields (not one of the abstracted library structs).
func (ex *Exec) isModelStruct(t types.Type) bool {
	if structOf(t) == nil {
		return false
	}
	return strings.HasPrefix(ex.w.sortOf(t, ex.d), "S$")
}

func (ex *Exec) fieldHeapName(root types.Type, i int) string {
	return "F$" + structKey(root) + "$" + structOf(root).Field(i).Name()
}

// loadRoot reads the whole object designated by p ignoring Path.
func (ex *Exec) loadPath(root Term, rootT types.Type, path []int) (Term, types.Type) {
	t := rootT
	v := root
	for _, i := range path {
		st := structOf(t)
		ft := st.Field(i).Type()
		v = app(ex.w.sortOf(ft, ex.d), ex.w.fieldSel(t, i), v)
		t = ft
	}
	return v, t
}

// storePath returns root with the component at path replaced by nv.
func (ex *Exec) storePath(root Term, rootT types.Type, path []int, nv Term) Term {
	if len(path) == 0 {
		return nv
	}
	st := structOf(rootT)
	var fs []Term
	for i := 0; i < st.NumFields(); i++ {
		ft := st.Field(i).Type()
		cur := app(ex.w.sortOf(ft, ex.d), ex.w.fieldSel(rootT, i), root)
		if i == path[0] {
			cur = ex.storePath(cur, ft, path[1:], nv)
		}
		fs = append(fs, cur)
	}
	return app(root.Sort, ex.w.structCtor(rootT), fs...)
}

func (ex *Exec) pointeeType(p *PtrV) types.Type {
	t := p.Root
	for _, i := range p.Path {
		t = structOf(t).Field(i).Type()
	}
	return t
}

func (ex *Exec) load(st *State, p *PtrV) Term {
	if p.Opaque {
		return ex.freshOfType(st, "opq", ex.pointeeType(p))
	}
	switch {
	case p.Cell != nil:
		root := st.frames[p.CellFr].cells[p.Cell]
		if root == nil {
			ex.unsupportedf("load of unset cell %s", p.Cell.Comment)
		}
		v, _ := ex.loadPath(ex.term(st, root), p.Root, p.Path)
		return v
	case p.Global != nil && p.GArr:
		arr := ex.globalVal(st, p.Global)
		v, _ := ex.loadPath(sel(arr, p.Idx, ex.w.sortOf(p.Root, ex.d)), p.Root, p.Path)
		return v
	case p.Global != nil:
		root := ex.globalVal(st, p.Global)
		v, _ := ex.loadPath(root, p.Root, p.Path)
		return v
	case p.IsElem:
		es := ex.w.sortOf(p.Root, ex.d)
		h := ex.heap(st, "S$"+es, arraySort(SInt, arraySort(SInt, es)))
		root := sel(sel(h, slcBase(p.Slc), arraySort(SInt, es)), eix(slcOff(p.Slc), p.Idx), es)
		v, _ := ex.loadPath(root, p.Root, p.Path)
		return v
	}
	// heap object
	if ex.isModelStruct(p.Root) {
		if len(p.Path) == 0 {
			sd := structOf(p.Root)
			var fs []Term
			for i := 0; i < sd.NumFields(); i++ {
				fs = append(fs, ex.loadField(st, p.Base, p.Root, i))
			}
			return app(ex.w.sortOf(p.Root, ex.d), ex.w.structCtor(p.Root), fs...)
		}
		f0 := ex.loadField(st, p.Base, p.Root, p.Path[0])
		v, _ := ex.loadPath(f0, structOf(p.Root).Field(p.Path[0]).Type(), p.Path[1:])
		return v
	}
	s := ex.w.sortOf(p.Root, ex.d)
	h := ex.heap(st, "P$"+s, arraySort(SInt, s))
	return sel(h, p.Base, s)
}

func (ex *Exec) loadField(st *State, base Term, root types.Type, i int) Term {
	ft := structOf(root).Field(i).Type()
	fs := ex.w.sortOf(ft, ex.d)
	h := ex.heap(st, ex.fieldHeapName(root, i), arraySort(SInt, fs))
	ex.entryClosed(st, ex.fieldHeapName(root, i), fs, ft)
	return sel(h, base, fs)
}

// entryClosed states, once per field heap, that the heap the function under verification starts
// in is closed: a reference stored in an object that exists at entry designates an object that
// exists at entry (the allocation watermark alloc@0 is above everything allocated so far).
func (ex *Exec) entryClosed(st *State, name, fs string, ft types.Type) {
	if ex.d.axseen["entryclosed:"+name] || os.Getenv("GOVC_NO_ENTRYCLOSED") != "" {
		return
	}
	switch types.Unalias(ft).Underlying().(type) {
	case *types.Pointer, *types.Map, *types.Slice:
	case *types.Struct:
		if !ex.isModelStruct(ft) {
			return
		}
	default:
		return
	}
	h0 := ex.heapConst(name, arraySort(SInt, fs), 0, 0)
	tmp := &State{alloc: st.alloc0, alloc0: st.alloc0}
	ex.assumeTypeFacts(tmp, ft, mk(fs, "(select "+h0.S+" r)"))
	if len(tmp.pc) == 0 {
		return
	}
	ex.d.axiom("entryclosed:"+name, fmt.Sprintf("(assert (forall ((r Int)) (! (=> (and (< 0 r) (< r %s)) %s) :pattern ((select %s r)))))", st.alloc0.S, and(tmp.pc...).S, h0.S))
}

func (ex *Exec) storeField(st *State, base Term, root types.Type, i int, v Term) {
	ft := structOf(root).Field(i).Type()
	fs := ex.w.sortOf(ft, ex.d)
	name := ex.fieldHeapName(root, i)
	h := ex.heap(st, name, arraySort(SInt, fs))
	ex.setHeap(st, name, sto(h, base, v))
}

func (ex *Exec) store(st *State, p *PtrV, v Term, site ssa.Instruction) {
	if p.Opaque {
		for _, hn := range ex.fieldHeapsOfType(p.Root) {
			ex.frameWrite(st, site, hn, tFalse)
			ex.havocHeap(st, hn, false)
		}
		s := ex.w.sortOf(p.Root, ex.d)
		ex.frameWrite(st, site, "P$"+s, tFalse)
		ex.havocHeap(st, "P$"+s, false)
		return
	}
	switch {
	case p.Cell != nil:
		fr := st.frames[p.CellFr]
		if len(p.Path) == 0 {
			fr.cells[p.Cell] = v
			return
		}
		root := ex.term(st, fr.cells[p.Cell])
		fr.cells[p.Cell] = ex.storePath(root, p.Root, p.Path, v)
		return
	case p.Global != nil && p.GArr:
		ex.frameWrite(st, site, "global "+p.Global.Name(), tFalse)
		ex.captureWrite(st, site, "package-level variable "+p.Global.Name())
		arr := ex.globalVal(st, p.Global)
		es := ex.w.sortOf(p.Root, ex.d)
		nv := v
		if len(p.Path) > 0 {
			nv = ex.storePath(sel(arr, p.Idx, es), p.Root, p.Path, v)
		}
		st.globals[p.Global.String()] = sto(arr, p.Idx, nv)
		return
	case p.Global != nil:
		ex.frameWrite(st, site, "global "+p.Global.Name(), tFalse)
		ex.captureWrite(st, site, "package-level variable "+p.Global.Name())
		root := ex.globalVal(st, p.Global)
		st.globals[p.Global.String()] = ex.storePath(root, p.Root, p.Path, v)
		return
	case p.IsElem:
		es := ex.w.sortOf(p.Root, ex.d)
		name := "S$" + es
		h := ex.heap(st, name, arraySort(SInt, arraySort(SInt, es)))
		ex.frameWrite(st, site, name, ge(slcBase(p.Slc), st.alloc0))
		arr := sel(h, slcBase(p.Slc), arraySort(SInt, es))
		idx := eix(slcOff(p.Slc), p.Idx)
		nv := v
		if len(p.Path) > 0 {
			nv = ex.storePath(sel(arr, idx, es), p.Root, p.Path, v)
		}
		ex.setHeap(st, name, sto(h, slcBase(p.Slc), sto(arr, idx, nv)))
		return
	}
	fresh := ge(p.Base, st.alloc0)
	if p.FreeVar {
		fresh = tFalse
		ex.captureWrite(st, site, "captured variable")
	}
	if ex.w.immutable[structKey(p.Root)] && site != nil {
		ex.oblige(st, "immut", "", site, fresh, "fields of immutable type "+structKey(p.Root)+" are written only on an object allocated in this activation")
	}
	if ex.isModelStruct(p.Root) {
		if len(p.Path) == 0 {
			sd := structOf(p.Root)
			for i := 0; i < sd.NumFields(); i++ {
				ex.frameWrite(st, site, ex.fieldHeapName(p.Root, i), fresh)
				ex.storeField(st, p.Base, p.Root, i, app(ex.w.sortOf(sd.Field(i).Type(), ex.d), ex.w.fieldSel(p.Root, i), v))
			}
			return
		}
		ex.frameWrite(st, site, ex.fieldHeapName(p.Root, p.Path[0]), fresh)
		f0t := structOf(p.Root).Field(p.Path[0]).Type()
		nv := v
		if len(p.Path) > 1 {
			nv = ex.storePath(ex.loadField(st, p.Base, p.Root, p.Path[0]), f0t, p.Path[1:], v)
		}
		ex.storeField(st, p.Base, p.Root, p.Path[0], nv)
		return
	}
	s := ex.w.sortOf(p.Root, ex.d)
	name := "P$" + s
	if p.FreeVar {
		name = "P$" + s
	}
	ex.frameWrite(st, site, name, fresh)
	h := ex.heap(st, name, arraySort(SInt, s))
	ex.setHeap(st, name, sto(h, p.Base, v))
}

// frameWrite emits a frame obligation when the function under verification
// declares an assigns clause: the written location must be fresh in this
// activation or its heap must be listed.
func (ex *Exec) frameWrite(st *State, site ssa.Instruction, heapName string, fresh Term) {
	if ex.con == nil || !ex.con.HasAssign {
		return
	}
	for _, a := range ex.con.Assigns {
		if a == "*" || a == heapName || (strings.HasSuffix(a, "*") && strings.HasPrefix(heapName, strings.TrimSuffix(a, "*"))) {
			return
		}
	}
	ex.oblige(st, "frame", "", site, fresh, "write to "+heapName+" must target memory allocated in this activation (assigns clause)")
}

// captureWrite: functions marked nocapture (render-time closures) must not write the
// variables they captured when the template was compiled, nor package-level variables:
// those are shared by every render of the template, on every goroutine (C03, C04).
func (ex *Exec) captureWrite(st *State, site ssa.Instruction, what string) {
	if ex.con == nil || !ex.con.NoCapture || site == nil {
		return
	}
	ex.oblige(st, "capture", "", site, tFalse, "render-time code writes a "+what+" shared between renders")
}

func (ex *Exec) globalVal(st *State, g *ssa.Global) Term {
	key := g.String()
	if t, ok := st.globals[key]; ok {
		return t
	}
	et := g.Type().(*types.Pointer).Elem()
	v := ex.freshOfType(st, "g_"+g.Name(), et)
	if ex.w.initMode && g.Name() == "init$guard" && g.Pkg == ex.fn.Pkg {
		v = tFalse // the initialiser's one real run
	}
	st.globals[key] = v
	if cl := ex.w.globalInvs[shortName(g.String())]; cl != nil && !(ex.w.initMode && g.Pkg == ex.fn.Pkg) {
		c := &SpecCtx{ex: ex, st: st, old: st, binds: map[string]TT{"self": {T: v, Ty: et}}, bound: map[string]string{}, clause: cl, pkg: g.Pkg.Pkg}
		st.assume(ex.safeFormula(c, cl.Text))
		ex.d.trust("global invariant of " + shortName(g.String()) + " (established by package initialisation, never written afterwards)")
	}
	return v
}

// ---------------------------------------------------------------------------
// running a function

type retK func(st *State, results []Value)

// enter pushes a frame for fn and starts executing it.
func (ex *Exec) enter(st *State, fn *ssa.Function, args []Value, freeVars []Value, k retK) {
	if len(fn.Blocks) == 0 {
		ex.unsupportedf("function %s has no body", fn)
	}
	fr := &Frame{fn: fn, env: map[ssa.Value]Value{}, cells: map[*ssa.Alloc]Value{}, inLoop: map[*ssa.BasicBlock]*loopEntry{}, freeVar: freeVars, k: k, depth: len(st.frames), params: args}
	for i, p := range fn.Params {
		fr.env[p] = args[i]
	}
	if len(st.frames) == 0 {
		ex.topFreeVars = freeVars
	}
	st.frames = append(st.frames, fr)
	ex.enterBlock(st, fn.Blocks[0], nil)
}

func (ex *Exec) guard(f func()) {
	defer func() {
		if r := recover(); r != nil {
			if _, ok := r.(abortPath); ok {
				return
			}
			panic(r)
		}
	}()
	f()
}

func (ex *Exec) enterBlock(st *State, b *ssa.BasicBlock, from *ssa.BasicBlock) {
	ex.paths++
	if ex.paths > ex.maxPaths {
		ex.unsupportedf("path budget exceeded in %s", ex.sel)
	}
	fr := st.top()
	for n := len(ex.stops) - 1; n >= 0; n-- {
		sp := ex.stops[n]
		if sp.block == b && sp.depth == len(st.frames) && sp.fn == fr.fn {
			sp.arrivals = append(sp.arrivals, arrival{st, from})
			return
		}
	}
	li := ex.loops(fr.fn)
	phiVal := func(phi *ssa.Phi) Value {
		for i, p := range b.Preds {
			if p == from {
				return ex.val(st, phi.Edges[i])
			}
		}
		ex.unsupportedf("phi without matching edge")
		return nil
	}
	nphi := 0
	for _, in := range b.Instrs {
		if _, ok := in.(*ssa.Phi); ok {
			nphi++
		} else if _, ok := in.(*ssa.DebugRef); !ok {
			break
		}
	}
	if l := li.byHeader[b]; l != nil && from != nil {
		// evaluate phis for this edge simultaneously
		vals := map[*ssa.Phi]Value{}
		for _, in := range b.Instrs {
			if phi, ok := in.(*ssa.Phi); ok {
				vals[phi] = phiVal(phi)
			}
		}
		if l.body[from] {
			// back edge: invariant preserved, measure decreased; path ends
			for phi, v := range vals {
				fr.env[phi] = v
			}
			ex.checkInvariants(st, fr.fn, l, "inv-pres")
			ex.checkLoopWrites(st, b.Instrs[0], fr.inLoop[b])
			if le := fr.inLoop[b]; le != nil && le.hasMeas {
				m1 := ex.loopMeasure(st, fr.fn, l)
				ex.oblige(st, "dec", "", b.Instrs[0], and(lt(m1, le.measure), ge(le.measure, intLit(0))), "loop measure decreases and is bounded below")
			}
			return
		}
		// loop entry
		for phi, v := range vals {
			fr.env[phi] = v
		}
		ex.checkInvariants(st, fr.fn, l, "inv-init")
		ex.havocLoop(st, fr, l)
		ex.assumeInvariants(st, fr.fn, l)
		if fr.fn == ex.fn {
			ex.coverPoint(st, fmt.Sprintf("loop%d", l.ordinal), "vacuity guard: the loop invariants are satisfiable together with the havoc'd state")
		}
		ent := &loopEntry{}
		if ls := ex.loopSpec(fr.fn, l); ls != nil && ls.Decreases != nil {
			ent.measure = ex.loopMeasure(st, fr.fn, l)
			ent.hasMeas = true
		}
		ex.recordLoopHead(st, fr, ent)
		fr.inLoop[b] = ent
	} else {
		vals := map[*ssa.Phi]Value{}
		for _, in := range b.Instrs {
			if phi, ok := in.(*ssa.Phi); ok {
				vals[phi] = phiVal(phi)
			}
		}
		for phi, v := range vals {
			fr.env[phi] = v
		}
	}
	ex.execFrom(st, b, 0)
}

func (ex *Exec) loopSpec(fn *ssa.Function, l *Loop) *LoopSpec {
	con := ex.contractOf(fn)
	if con == nil {
		return nil
	}
	return con.Loops[l.ordinal]
}

func (ex *Exec) contractOf(fn *ssa.Function) *Contract {
	if fn == ex.fn {
		return ex.con
	}
	return ex.w.cons[shortName(fn.String())]
}

// execFrom runs the instructions of b starting at idx.
func (ex *Exec) execFrom(st *State, b *ssa.BasicBlock, idx int) {
	for i := idx; i < len(b.Instrs); i++ {
		in := b.Instrs[i]
		switch in := in.(type) {
		case *ssa.Phi, *ssa.DebugRef:
			continue
		case *ssa.If:
			c := ex.term(st, ex.val(st, in.Cond))
			if c.S != "true" && c.S != "false" {
				if ex.tryMerge(st, b, c) {
					return
				}
			}
			if c.S != "false" {
				st2 := st.clone()
				st2.assume(c)
				ex.guard(func() { ex.enterBlock(st2, b.Succs[0], b) })
			}
			if c.S != "true" {
				st.assume(not(c))
				ex.enterBlock(st, b.Succs[1], b)
			}
			return
		case *ssa.Jump:
			ex.enterBlock(st, b.Succs[0], b)
			return
		case *ssa.Return:
			var rs []Value
			for _, r := range in.Results {
				rs = append(rs, ex.val(st, r))
			}
			ex.doReturn(st, rs, in)
			return
		case *ssa.Panic:
			ex.doPanic(st, in)
			return
		case *ssa.Call:
			if ex.execCall(st, in, b, i) {
				return // continuation took over
			}
		case *ssa.Defer:
			fr := st.top()
			rec := &deferRec{call: in}
			if in.Call.IsInvoke() {
				ex.unsupportedf("deferred interface call")
			}
			rec.fn = ex.val(st, in.Call.Value)
			for _, a := range in.Call.Args {
				rec.args = append(rec.args, ex.val(st, a))
			}
			fr.defers = append(fr.defers, rec)
		case *ssa.RunDefers:
			if ex.runDefers(st, b, i) {
				return
			}
		default:
			ex.step(st, in)
		}
	}
}

func (ex *Exec) doReturn(st *State, rs []Value, site ssa.Instruction) {
	fr := st.top()
	if len(st.frames) == 1 {
		ex.lastFrame, ex.lastRet = fr, site
	}
	k := fr.k
	st.frames = st.frames[:len(st.frames)-1]
	k(st, rs)
}

// runDefers executes pending deferred calls (LIFO) by inlining; returns true if
// control was transferred to a continuation.
func (ex *Exec) runDefers(st *State, b *ssa.BasicBlock, idx int) bool {
	fr := st.top()
	if len(fr.defers) == 0 {
		return false
	}
	rec := fr.defers[len(fr.defers)-1]
	fr.defers = fr.defers[:len(fr.defers)-1]
	cl, ok := rec.fn.(*ClosureV)
	if !ok {
		ex.unsupportedf("deferred call of unknown function value")
	}
	depth := len(st.frames)
	ex.callKnown(st, rec.call, cl, rec.args, func(st2 *State, _ []Value) {
		if len(st2.frames) != depth {
			ex.unsupportedf("frame mismatch after deferred call")
		}
		// re-run RunDefers for remaining records
		ex.execFrom(st2, b, idx)
	})
	return true
}

func (ex *Exec) doPanic(st *State, in *ssa.Panic) {
	v := ex.term(st, ex.val(st, in.X))
	allowed := tFalse
	if st.panicOK["any"] {
		allowed = tTrue // `panics any`: a value made by code outside the contracts is re-raised as is
	}
	for name := range st.panicOK {
		if t := ex.w.lookupType(name); t != nil {
			allowed = or(allowed, eq(app(SInt, "typeof", v), intLit(int64(ex.w.typeID(t, ex.d)))))
		}
	}
	ex.oblige(st, "panic", "", in, allowed, "explicit panic is unreachable or raises only a declared panic type")
}

// step executes a simple (non-control) instruction.
func (ex *Exec) step(st *State, in ssa.Instruction) {
	fr := st.top()
	switch in := in.(type) {
	case *ssa.Alloc:
		et := in.Type().(*types.Pointer).Elem()
		if at, ok := types.Unalias(et).Underlying().(*types.Array); ok {
			// arrays (varargs temporaries) live in the slice heap at a fresh base
			es := ex.w.sortOf(at.Elem(), ex.d)
			base := ex.newRef(st, "arr")
			name, h := ex.slcHeap(st, es)
			as := arraySort(SInt, es)
			ex.setHeap(st, name, sto(h, base, ex.constArr(as, ex.zero(at.Elem()))))
			fr.env[in] = &PtrV{Base: base, Root: et}
			return
		}
		if ex.isCellAlloc(in) {
			fr.cells[in] = ex.zero(et)
			fr.env[in] = &PtrV{Cell: in, CellFr: fr.depth, Root: et}
			return
		}
		r := ex.newRef(st, in.Comment)
		p := &PtrV{Base: r, Root: et}
		// zero-initialise
		ex.storeNoFrame(st, p, ex.zero(et))
		if isNamed(et, "bytes", "Buffer") {
			// a new buffer used as an io.Writer has accepted nothing yet
			h := ex.heap(st, "W$total", arraySort(SVal, SStr))
			st.assume(eq(sel(h, ex.w.box(in.Type(), r, ex.d), SStr), mk(SStr, "str_empty")))
		}
		fr.env[in] = p
	case *ssa.UnOp:
		fr.env[in] = ex.unop(st, in)
	case *ssa.BinOp:
		fr.env[in] = ex.binop(st, in, in.Op, ex.val(st, in.X), ex.val(st, in.Y), in.X.Type())
	case *ssa.Store:
		p := ex.ptr(st, ex.val(st, in.Addr), in.Addr.Type(), in)
		v := ex.val(st, in.Val)
		if pv, ok := v.(*PtrV); ok && (pv.Cell != nil || len(pv.Path) > 0 || pv.IsElem || pv.Global != nil) {
			if p.Cell != nil && len(p.Path) == 0 {
				st.frames[p.CellFr].cells[p.Cell] = pv // cell holding a tracked pointer
				return
			}
		}
		if cv, ok := v.(*ClosureV); ok && p.Cell != nil && len(p.Path) == 0 {
			st.frames[p.CellFr].cells[p.Cell] = cv
			return
		}
		ex.store(st, p, ex.term(st, v), in)
	case *ssa.FieldAddr:
		base := ex.ptr(st, ex.val(st, in.X), in.X.Type(), in)
		if base.Cell == nil && base.Global == nil && !base.IsElem && len(base.Path) == 0 {
			ex.oblige(st, "nil", "", in, not(eq(base.Base, intLit(0))), "field access through non-nil pointer")
		}
		np := *base
		np.Path = append(append([]int(nil), base.Path...), in.Field)
		fr.env[in] = &np
	case *ssa.Field:
		x := ex.term(st, ex.val(st, in.X))
		ft := structOf(in.X.Type()).Field(in.Field).Type()
		if !ex.isModelStruct(in.X.Type()) {
			ex.unsupportedf("field of abstracted struct %s", in.X.Type())
		}
		fr.env[in] = app(ex.w.sortOf(ft, ex.d), ex.w.fieldSel(in.X.Type(), in.Field), x)
	case *ssa.IndexAddr:
		xt := types.Unalias(in.X.Type()).Underlying()
		idx := ex.term(st, ex.val(st, in.Index))
		switch t := xt.(type) {
		case *types.Slice:
			s := ex.term(st, ex.val(st, in.X))
			ex.oblige(st, "bounds", "", in, and(le(intLit(0), idx), lt(idx, slcLen(s))), "slice index in range")
			fr.env[in] = &PtrV{IsElem: true, Slc: s, Idx: idx, Root: t.Elem()}
		case *types.Pointer:
			at, ok := types.Unalias(t.Elem()).Underlying().(*types.Array)
			p, isP := ex.val(st, in.X).(*PtrV)
			if ok && isP && p.Global != nil && !p.GArr && len(p.Path) == 0 {
				ex.oblige(st, "bounds", "", in, and(le(intLit(0), idx), lt(idx, intLit(at.Len()))), "array index in range")
				fr.env[in] = &PtrV{Global: p.Global, GArr: true, Idx: idx, Root: at.Elem()}
				return
			}
			if !ok || !isP || p.Cell != nil || len(p.Path) > 0 || p.IsElem {
				ex.unsupportedf("IndexAddr on %s", in.X.Type())
			}
			n := intLit(at.Len())
			ex.oblige(st, "bounds", "", in, and(le(intLit(0), idx), lt(idx, n)), "array index in range")
			fr.env[in] = &PtrV{IsElem: true, Slc: mkSlc(p.Base, intLit(0), n, n), Idx: idx, Root: at.Elem()}
		default:
			ex.unsupportedf("IndexAddr on %s", in.X.Type())
		}
	case *ssa.Index:
		switch t := types.Unalias(in.X.Type()).Underlying().(type) {
		case *types.Array:
			x := ex.term(st, ex.val(st, in.X))
			idx := ex.term(st, ex.val(st, in.Index))
			ex.oblige(st, "bounds", "", in, and(le(intLit(0), idx), lt(idx, intLit(t.Len()))), "array index in range")
			fr.env[in] = sel(x, idx, ex.w.sortOf(t.Elem(), ex.d))
		case *types.Basic: // string
			x := ex.term(st, ex.val(st, in.X))
			idx := ex.term(st, ex.val(st, in.Index))
			ex.oblige(st, "bounds", "", in, and(le(intLit(0), idx), lt(idx, app(SInt, "str_len", x))), "string index in range")
			r := app(SInt, "str_at", x, idx)
			st.assume(and(le(intLit(0), r), le(r, intLit(255))))
			fr.env[in] = r
		default:
			ex.unsupportedf("Index on %s", in.X.Type())
		}
	case *ssa.Lookup:
		fr.env[in] = ex.lookup(st, in)
	case *ssa.Slice:
		fr.env[in] = ex.sliceOp(st, in)
	case *ssa.MakeInterface:
		x := ex.val(st, in.X)
		xt := ex.term(st, x)
		if inv := ex.typeInv(st, in.X.Type(), xt); inv.S != "true" {
			ex.oblige(st, "typeinv", "", in, inv, "type invariant of "+typeString(in.X.Type())+" holds when the value is published")
		}
		fr.env[in] = ex.w.box(in.X.Type(), xt, ex.d)
	case *ssa.ChangeInterface:
		x := ex.val(st, in.X)
		if t, ok := x.(Term); ok {
			from, to := t.Sort, ex.w.sortOf(in.Type(), ex.d)
			if from != to {
				// an interface modelled by its own sort (reflect.Type = type id) stored into a
				// general interface: an opaque injection into Val
				if from == SInt && to == SVal {
					ex.d.declFun("iface2val$Int", []string{SInt}, SVal)
					x = ite(eq(t, intLit(0)), nilVal, app(SVal, "iface2val$Int", t))
				} else {
					ex.unsupportedf("ChangeInterface between sorts %s and %s", from, to)
				}
			}
		}
		fr.env[in] = x
	case *ssa.ChangeType:
		x := ex.val(st, in.X)
		if t, ok := x.(Term); ok {
			if s := ex.w.sortOf(in.Type(), ex.d); s != t.Sort {
				ex.unsupportedf("ChangeType between sorts %s and %s", t.Sort, s)
			}
		}
		fr.env[in] = x
	case *ssa.Convert:
		fr.env[in] = ex.convert(st, in)
	case *ssa.TypeAssert:
		fr.env[in] = ex.typeAssert(st, in)
	case *ssa.Extract:
		t, ok := ex.val(st, in.Tuple).(TupleV)
		if !ok || in.Index >= len(t) {
			ex.unsupportedf("extract from non-tuple")
		}
		fr.env[in] = t[in.Index]
	case *ssa.MakeClosure:
		fn := in.Fn.(*ssa.Function)
		cv := ex.funcValue(fn)
		c := &ClosureV{Fn: fn, T: ex.fresh("closure_"+fn.Name(), "Fn")}
		st.assume(not(eq(c.T, mk("Fn", "fn_nil"))))
		_ = cv
		for _, b := range in.Bindings {
			c.Bindings = append(c.Bindings, ex.val(st, b))
		}
		fr.env[in] = c
	case *ssa.MakeMap:
		fr.env[in] = ex.makeMap(st, in)
	case *ssa.MakeSlice:
		fr.env[in] = ex.makeSlice(st, in)
	case *ssa.MapUpdate:
		ex.mapUpdate(st, in)
	case *ssa.Range:
		fr.env[in] = ex.rangeInit(st, in)
	case *ssa.Next:
		fr.env[in] = ex.next(st, in)
	default:
		ex.unsupportedf("instruction %T (%s)", in, in)
	}
}

func (ex *Exec) storeNoFrame(st *State, p *PtrV, v Term) {
	con := ex.con
	ex.con = nil
	defer func() { ex.con = con }()
	ex.store(st, p, v, nil)
}

// ptr interprets a pointer-typed value as an lvalue.
func (ex *Exec) ptr(st *State, v Value, t types.Type, site ssa.Instruction) *PtrV {
	switch x := v.(type) {
	case *PtrV:
		return x
	case Term:
		pt, ok := types.Unalias(t).Underlying().(*types.Pointer)
		if !ok {
			ex.unsupportedf("pointer operation on non-pointer type %s", t)
		}
		if site != nil {
			if _, isFA := site.(*ssa.FieldAddr); !isFA {
				ex.oblige(st, "nil", "", site, not(eq(x, intLit(0))), "dereference of non-nil pointer")
			}
		}
		p := &PtrV{Base: x, Root: pt.Elem()}
		if !ex.isModelStruct(pt.Elem()) && ex.mayBeInterior(pt.Elem()) {
			p.Opaque = true
		}
		return p
	}
	ex.unsupportedf("value %T is not a pointer", v)
	return nil
}

// isCellAlloc: the allocation never escapes as a first-class pointer, so it can be
// kept as a frame-local register.
func (ex *Exec) isCellAlloc(a *ssa.Alloc) bool {
	var ok func(v ssa.Value, depth int) bool
	ok = func(v ssa.Value, depth int) bool {
		if depth > 6 {
			return false
		}
		refs := v.Referrers()
		if refs == nil {
			return true
		}
		for _, r := range *refs {
			switch r := r.(type) {
			case *ssa.DebugRef:
			case *ssa.UnOp:
				if r.Op != token.MUL {
					return false
				}
			case *ssa.Store:
				if r.Addr != v {
					return false
				}
			case *ssa.FieldAddr:
				if !ok(r, depth+1) {
					return false
				}
			case *ssa.MakeClosure:
				if !ex.closureIsLocal(r) {
					return false
				}
			case *ssa.Call:
				// pointer passed as receiver/argument to a function with a contract/spec
				if !ex.callTakesLvalue(r.Common(), v) {
					return false
				}
			default:
				return false
			}
		}
		return true
	}
	return ok(a, 0)
}

// closureIsLocal: the closure value is only called or deferred in its parent.
func (ex *Exec) closureIsLocal(mc *ssa.MakeClosure) bool {
	refs := mc.Referrers()
	if refs == nil {
		return true
	}
	for _, r := range *refs {
		switch r := r.(type) {
		case *ssa.DebugRef:
		case *ssa.Call:
			if r.Call.Value != mc {
				return false
			}
		case *ssa.Defer:
			if r.Call.Value != mc {
				return false
			}
		case *ssa.Store:
			// stored into a local variable cell that is itself only called
			a, ok := r.Addr.(*ssa.Alloc)
			if !ok || r.Val != mc {
				return false
			}
			if !ex.cellOnlyCalled(a) {
				return false
			}
		default:
			return false
		}
	}
	return true
}

func (ex *Exec) cellOnlyCalled(a *ssa.Alloc) bool {
	refs := a.Referrers()
	if refs == nil {
		return true
	}
	for _, r := range *refs {
		switch r := r.(type) {
		case *ssa.DebugRef, *ssa.Store:
		case *ssa.UnOp:
			lr := r.Referrers()
			if lr == nil {
				continue
			}
			for _, u := range *lr {
				switch u := u.(type) {
				case *ssa.DebugRef:
				case *ssa.Call:
					if u.Call.Value != r {
						return false
					}
				default:
					return false
				}
			}
		case *ssa.MakeClosure:
			if !ex.closureIsLocal(r) {
				return false
			}
		default:
			return false
		}
	}
	return true
}

func (ex *Exec) callTakesLvalue(c *ssa.CallCommon, v ssa.Value) bool {
	callee := c.StaticCallee()
	if callee == nil {
		return false
	}
	con := ex.w.cons[shortName(callee.String())]
	return con != nil && con.External
}

func (ex *Exec) unop(st *State, in *ssa.UnOp) Value {
	switch in.Op {
	case token.MUL:
		xv := ex.val(st, in.X)
		if g, ok := in.X.(*ssa.Global); ok {
			_ = g
		}
		p := ex.ptr(st, xv, in.X.Type(), in)
		if p.Cell != nil && len(p.Path) == 0 {
			// cells may hold tracked pointers / closures
			c := st.frames[p.CellFr].cells[p.Cell]
			switch c.(type) {
			case *PtrV, *ClosureV:
				return c
			}
		}
		v := ex.load(st, p)
		ex.assumeLoaded(st, in.Type(), v)
		return v
	case token.NOT:
		return not(ex.term(st, ex.val(st, in.X)))
	case token.SUB:
		x := ex.term(st, ex.val(st, in.X))
		if x.Sort == SFlt {
			return app(SFlt, "f_neg", x)
		}
		return app(SInt, "-", x)
	case token.XOR:
		x := ex.term(st, ex.val(st, in.X))
		return app(SInt, "-", app(SInt, "-", intLit(0), x), intLit(1))
	}
	ex.unsupportedf("unary operator %s", in.Op)
	return nil
}

// assumeLoaded: values read from memory satisfy their type's facts.
func (ex *Exec) assumeLoaded(st *State, t types.Type, v Term) {
	switch types.Unalias(t).Underlying().(type) {
	case *types.Basic, *types.Slice, *types.Pointer, *types.Map:
		if len(v.S) < 400 {
			ex.assumeTypeFacts(st, t, v)
		}
	case *types.Struct:
		// a struct value read from memory: the references nested in it were allocated earlier
		if len(v.S) < 200 && ex.isModelStruct(t) && os.Getenv("GOVC_NO_STRUCTFACTS") == "" {
			ex.assumeTypeFacts(st, t, v)
		}
	}
}

func isUnsigned(t types.Type) bool {
	b, ok := types.Unalias(t).Underlying().(*types.Basic)
	return ok && b.Info()&types.IsUnsigned != 0
}

func (ex *Exec) binop(st *State, site ssa.Instruction, op token.Token, xv, yv Value, xt types.Type) Value {
	x, y := ex.term(st, xv), ex.term(st, yv)
	switch x.Sort {
	case SInt:
		switch op {
		case token.ADD, token.SUB, token.MUL:
			f := map[token.Token]string{token.ADD: "+", token.SUB: "-", token.MUL: "*"}[op]
			r := app(SInt, f, x, y)
			return ex.wrapArith(st, site, xt, r)
		case token.QUO:
			ex.oblige(st, "div", "", site, not(eq(y, intLit(0))), "integer division by non-zero")
			return app(SInt, "tdiv", x, y)
		case token.REM:
			ex.oblige(st, "div", "", site, not(eq(y, intLit(0))), "integer remainder by non-zero")
			return app(SInt, "tmod", x, y)
		case token.EQL:
			return eq(x, y)
		case token.NEQ:
			return not(eq(x, y))
		case token.LSS:
			return lt(x, y)
		case token.LEQ:
			return le(x, y)
		case token.GTR:
			return gt(x, y)
		case token.GEQ:
			return ge(x, y)
		case token.AND, token.OR, token.XOR, token.SHL, token.SHR, token.AND_NOT:
			name := map[token.Token]string{token.AND: "bv_and", token.OR: "bv_or", token.XOR: "bv_xor", token.SHL: "bv_shl", token.SHR: "bv_shr", token.AND_NOT: "bv_andnot"}[op]
			ex.d.declFun(name, []string{SInt, SInt}, SInt)
			ex.note("bit operation %s treated as uninterpreted", op)
			r := app(SInt, name, x, y)
			st.assume(rangeAssume(xt, r))
			return r
		}
	case SBool:
		switch op {
		case token.EQL:
			return eq(x, y)
		case token.NEQ:
			return not(eq(x, y))
		case token.AND, token.LAND:
			return and(x, y)
		case token.OR, token.LOR:
			return or(x, y)
		}
	case SStr:
		switch op {
		case token.ADD:
			return app(SStr, "str_cat", x, y)
		case token.EQL:
			return eq(x, y)
		case token.NEQ:
			return not(eq(x, y))
		case token.LSS:
			return app(SBool, "str_lt", x, y)
		case token.GTR:
			return app(SBool, "str_lt", y, x)
		case token.LEQ:
			return not(app(SBool, "str_lt", y, x))
		case token.GEQ:
			return not(app(SBool, "str_lt", x, y))
		}
	case SFlt:
		switch op {
		case token.ADD:
			return app(SFlt, "f_add", x, y)
		case token.SUB:
			return app(SFlt, "f_sub", x, y)
		case token.MUL:
			return app(SFlt, "f_mul", x, y)
		case token.QUO:
			return app(SFlt, "f_div", x, y)
		case token.EQL:
			return app(SBool, "f_eq", x, y)
		case token.NEQ:
			return not(app(SBool, "f_eq", x, y))
		case token.LSS:
			return app(SBool, "f_lt", x, y)
		case token.GTR:
			return app(SBool, "f_lt", y, x)
		case token.LEQ:
			return or(app(SBool, "f_lt", x, y), app(SBool, "f_eq", x, y))
		case token.GEQ:
			return or(app(SBool, "f_lt", y, x), app(SBool, "f_eq", x, y))
		}
	case SVal:
		if op == token.EQL || op == token.NEQ {
			// comparing two interface values panics when the identical dynamic type is not comparable
			if !ex.deepConst(x) && !ex.deepConst(y) {
				tx := app(SInt, "typeof", x)
				ex.oblige(st, "cmp", "", site, implies(eq(tx, app(SInt, "typeof", y)), or(app(SBool, "vcomparable", x), app(SBool, "vcomparable", y))), "interface comparison of identical dynamic types: one operand must be comparable in depth (a comparable struct can hold a slice in an interface field)")
			}
			if op == token.EQL {
				return eq(x, y)
			}
			return not(eq(x, y))
		}
	default:
		if op == token.EQL {
			return eq(x, y)
		}
		if op == token.NEQ {
			return not(eq(x, y))
		}
	}
	ex.unsupportedf("binary operator %s on sort %s", op, x.Sort)
	return nil
}

// deepConst: an operand whose comparison can never panic - nil, or a boxed value of a type
// that is comparable and holds no interface at any depth (strings, numbers, pointers, structs
// of those). Boxed structs that hold an interface (wrapperValue) are not exempt.
func (ex *Exec) deepConst(t Term) bool {
	if t.S == "nil_val" {
		return true
	}
	if !isConstLike(t) {
		return false
	}
	var id int
	if _, err := fmt.Sscanf(t.S, "(box$%d ", &id); err != nil {
		return false
	}
	ty := ex.w.typeByID[id]
	return ty != nil && types.Comparable(ty) && !holdsInterface(ty, 0)
}

func isConstLike(t Term) bool {
	return t.S == "nil_val" || strings.HasPrefix(t.S, "(box$") && !strings.Contains(t.S[1:], "(") || strings.HasPrefix(t.S, "(box$") && strings.Count(t.S, "(") <= 1
}

// wrapArith applies machine wrap-around for narrow integer types and, when the
// contract asks for it, emits an overflow obligation for int/int64.
func (ex *Exec) wrapArith(st *State, site ssa.Instruction, t types.Type, r Term) Term {
	b, ok := types.Unalias(t).Underlying().(*types.Basic)
	if !ok {
		return r
	}
	switch b.Kind() {
	case types.Int, types.Int64:
		if ex.con != nil && (ex.con.Overflow || os.Getenv("GOVC_OVERFLOW_ALL") != "") {
			ex.oblige(st, "overflow", "", site, app(SBool, "in_i64", r), "integer arithmetic stays within int64")
		} else {
			ex.note("machine arithmetic treated as mathematical in %s", shortName(site.Parent().String()))
		}
		return r
	case types.Uint8:
		return app(SInt, "mod", r, intLit(256))
	case types.Uint16:
		return app(SInt, "mod", r, intLit(65536))
	case types.Uint32:
		return app(SInt, "mod", r, mk(SInt, "4294967296"))
	case types.Uint, types.Uint64, types.Uintptr:
		return app(SInt, "mod", r, mk(SInt, "18446744073709551616"))
	default:
		ex.note("machine arithmetic on %s treated as mathematical in %s", b.Name(), shortName(site.Parent().String()))
		return r
	}
}

// fieldHeapsOfType lists the field heaps of in-repo struct types whose field type is t.
func (ex *Exec) fieldHeapsOfType(t types.Type) []string { return ex.w.fieldHeapsOfType(t) }

// fieldHeapsOfType lists the field heaps of in-repo struct types whose field type is t: what a
// store through a pointer of unknown origin to a t may overwrite.
func (w *World) fieldHeapsOfType(t types.Type) []string {
	key := typeString(t)
	if w.fieldHeaps == nil {
		w.fieldHeaps = map[string][]string{}
		for _, pkg := range w.prog.AllPackages() {
			if !strings.HasPrefix(pkg.Pkg.Path(), modPath) {
				continue
			}
			scope := pkg.Pkg.Scope()
			for _, n := range scope.Names() {
				tn, ok := scope.Lookup(n).(*types.TypeName)
				if !ok {
					continue
				}
				st, ok := tn.Type().Underlying().(*types.Struct)
				if !ok {
					continue
				}
				for i := 0; i < st.NumFields(); i++ {
					fk := typeString(st.Field(i).Type())
					w.fieldHeaps[fk] = append(w.fieldHeaps[fk], "F$"+structKey(tn.Type())+"$"+st.Field(i).Name())
				}
			}
		}
	}
	return w.fieldHeaps[key]
}

func (ex *Exec) mayBeInterior(t types.Type) bool { return len(ex.fieldHeapsOfType(t)) > 0 }
