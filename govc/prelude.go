package main

// The fixed SMT prelude: sorts, datatypes, base functions and the axioms of the
// abstract string / value models (DESIGN.md section 3). Everything here is part of
// the trusted base and is listed as such in evidence ("prelude axioms").
// Axiom groups are included in a query only when one of their trigger symbols
// occurs in it (keeps queries small and avoids needless quantifier instantiation).

const preludeBase = `(set-logic ALL)
(declare-sort Str 0)
(declare-sort Flt 0)
(declare-sort Val 0)
(declare-datatypes ((Slc 0)) (((mk_slc (s_base Int) (s_off Int) (s_len Int) (s_cap Int)))))
(declare-datatypes ((Unit 0)) (((unit))))
; ---- dynamic values -------------------------------------------------------
(declare-fun typeof (Val) Int)
(declare-fun tmd (Int Int) Str)
(declare-fun fsread (Str) Str)
(declare-fun str_runes (Str) (Array Int Int))
(declare-fun runes2str ((Array Int Int) Int Int) Str)
(declare-fun rv_deepnan (Val) Bool)
(declare-fun nil_val () Val)
(assert (= (typeof nil_val) 0))
(assert (forall ((v Val)) (! (=> (= (typeof v) 0) (= v nil_val)) :pattern ((typeof v)))))
(declare-fun kindof (Int) Int)
(assert (= (kindof 0) 0))
(assert (forall ((t Int)) (! (and (<= 0 (kindof t)) (<= (kindof t) 26)) :pattern ((kindof t)))))
(assert (forall ((t Int)) (! (=> (not (= t 0)) (not (= (kindof t) 0))) :pattern ((kindof t)))))
(define-fun kind ((v Val)) Int (kindof (typeof v)))
; generic payloads by kind (reflect.Value.Int/Uint/Float/String/Bool/Len)
(declare-fun pl_int (Val) Int)
(declare-fun pl_bool (Val) Bool)
(declare-fun pl_str (Val) Str)
(declare-fun pl_flt (Val) Flt)
(declare-fun pl_len (Val) Int)
(declare-fun pl_elem (Val Int) Val)
(declare-fun pl_ptr (Val) Int)
(declare-fun pl_deref (Val) Val)
(declare-fun pl_mhas (Val Val) Bool)
(declare-fun pl_mget (Val Val) Val)
(declare-fun tassignable (Int Int) Bool)
(declare-fun tnumin (Int) Int)
(declare-fun tnumout (Int) Int)
(declare-fun tout (Int Int) Int)
(declare-fun tmethod (Int Str) Bool)
(declare-fun tfield (Int Str) Bool)
(declare-fun texported (Int Str) Bool)
(declare-fun tnumfield (Int) Int)
(declare-fun fprinted (Val) Str)
(declare-fun spellsint (Str) Bool)
(declare-fun parseint (Str) Int)
(declare-fun spellsflt (Str) Bool)
(declare-fun parseflt (Str) Flt)
(declare-fun tviaptr (Int Str) Bool)
(declare-fun sprint1 (Val) Str)
(declare-fun sprintf5 (Str Val Val Val Val Val) Str)
(declare-fun requote (Str) Str)
(declare-fun unquote (Str) Str)
(assert (forall ((s Str)) (! (= (unquote (requote s)) s) :pattern ((requote s)))))
(declare-fun tokdelim (Str Int) Str)
(assert (forall ((f Str) (a Val) (b Val) (c Val) (x Val) (d Val)) (! (and (= (tokdelim (sprintf5 f a b c x d) 0) (unquote (pl_str a))) (= (tokdelim (sprintf5 f a b c x d) 1) (unquote (pl_str b))) (= (tokdelim (sprintf5 f a b c x d) 2) (unquote (pl_str c))) (= (tokdelim (sprintf5 f a b c x d) 3) (unquote (pl_str d)))) :pattern ((sprintf5 f a b c x d)))))
(declare-fun tvariadic (Int) Bool)
(declare-fun tin (Int Int) Int)
(assert (forall ((t Int)) (! (tassignable t t) :pattern ((tassignable t t)))))
(declare-fun tcomparable (Int) Bool)
(assert (tcomparable 0))
(assert (forall ((t Int)) (! (=> (or (and (<= 1 (kindof t)) (<= (kindof t) 16)) (= (kindof t) 18) (= (kindof t) 22) (= (kindof t) 24) (= (kindof t) 26)) (tcomparable t)) :pattern ((tcomparable t)))))
(assert (forall ((t Int)) (! (=> (or (= (kindof t) 19) (= (kindof t) 21) (= (kindof t) 23)) (not (tcomparable t))) :pattern ((tcomparable t)))))
; tdeepcmp t: no value of type t makes == panic (t is comparable and holds no interface at
; any depth, or is a basic/pointer/channel/string kind); vcomparable v: comparing v with any
; value does not panic (reflect.Value.Comparable). A struct or array type that is Comparable()
; can still hold an interface field whose dynamic value is a slice or map.
(declare-fun tdeepcmp (Int) Bool)
(declare-fun vcomparable (Val) Bool)
(assert (tdeepcmp 0))
(assert (forall ((t Int)) (! (=> (or (and (<= 1 (kindof t)) (<= (kindof t) 16)) (= (kindof t) 18) (= (kindof t) 22) (= (kindof t) 24) (= (kindof t) 26)) (tdeepcmp t)) :pattern ((tdeepcmp t)))))
(assert (forall ((t Int)) (! (=> (tdeepcmp t) (tcomparable t)) :pattern ((tdeepcmp t)))))
(assert (forall ((v Val)) (! (and (=> (tdeepcmp (typeof v)) (vcomparable v)) (=> (vcomparable v) (tcomparable (typeof v)))) :pattern ((vcomparable v)))))
(declare-fun telem (Int) Int)
(declare-fun tkey (Int) Int)
; ---- integer helpers --------------------------------------------------------
(define-fun tdiv ((a Int) (b Int)) Int (ite (>= a 0) (ite (> b 0) (div a b) (- (div a (- b)))) (ite (> b 0) (- (div (- a) b)) (div (- a) (- b)))))
(define-fun tmod ((a Int) (b Int)) Int (- a (* b (tdiv a b))))
(declare-fun eix (Int Int) Int)
(assert (forall ((o Int) (i Int)) (! (= (eix o i) (+ o i)) :pattern ((eix o i)))))
(define-fun imin ((a Int) (b Int)) Int (ite (< a b) a b))
(define-fun imax ((a Int) (b Int)) Int (ite (> a b) a b))
(define-fun in_i64 ((a Int)) Bool (and (<= (- 9223372036854775808) a) (<= a 9223372036854775807)))
(declare-fun i2f (Int) Flt)
(declare-fun f2i (Flt) Int)
(declare-fun f_add (Flt Flt) Flt)
(declare-fun f_sub (Flt Flt) Flt)
(declare-fun f_mul (Flt Flt) Flt)
(declare-fun f_div (Flt Flt) Flt)
(declare-fun f_neg (Flt) Flt)
(declare-fun f_lt (Flt Flt) Bool)
(declare-fun f_eq (Flt Flt) Bool)
(declare-fun f_isnan (Flt) Bool)
(declare-fun f_zero () Flt)
(declare-fun str_len (Str) Int)
(declare-fun str_sub (Str Int Int) Str)
(declare-fun str_cat (Str Str) Str)
(declare-fun str_at (Str Int) Int)
(declare-fun str_empty () Str)
(declare-fun str_lt (Str Str) Bool)
(declare-fun str_count (Str Int) Int)
(declare-fun str_ltrim (Str) Str)
(declare-fun str_rtrim (Str) Str)
(declare-fun str_stripws (Str) Str)
(declare-fun str_lspace (Str) Int)
(declare-fun str_rspace (Str) Int)
(declare-fun str_hasprefix (Str Str) Bool)
(declare-fun str_runecount (Str) Int)
(declare-fun arr2str ((Array Int Int) Int Int) Str)
`

type axGroup struct {
	name     string
	triggers []string
	text     string
}

var axGroups = []axGroup{
	{"flt", []string{"f_", "i2f", "f2i", "Flt"}, `; ---- floats -----------------------------------------------------------------
(assert (= (i2f 0) f_zero))
(assert (forall ((a Flt)) (! (=> (not (f_isnan a)) (f_eq a a)) :pattern ((f_eq a a)))))
(assert (forall ((a Flt) (b Flt)) (! (= (f_eq a b) (f_eq b a)) :pattern ((f_eq a b)))))
(assert (forall ((a Flt) (b Flt)) (! (=> (f_lt a b) (and (not (f_lt b a)) (not (f_eq a b)))) :pattern ((f_lt a b)))))
(assert (forall ((a Flt) (b Flt)) (! (=> (= a b) (or (f_eq a b) (f_isnan a))) :pattern ((f_eq a b)))))
(assert (forall ((i Int) (j Int)) (! (=> (and (<= (- 9007199254740992) i) (<= i 9007199254740992) (<= (- 9007199254740992) j) (<= j 9007199254740992)) (and (= (f_lt (i2f i) (i2f j)) (< i j)) (= (f_eq (i2f i) (i2f j)) (= i j)))) :pattern ((i2f i) (i2f j)))))
(assert (forall ((i Int)) (! (not (f_isnan (i2f i))) :pattern ((i2f i)))))`},
	{"str", []string{"str_", "Str"}, `; ---- strings ----------------------------------------------------------------
(assert (forall ((s Str)) (! (>= (str_len s) 0) :pattern ((str_len s)))))
(assert (= (str_len str_empty) 0))
(assert (forall ((s Str)) (! (=> (= (str_len s) 0) (= s str_empty)) :pattern ((str_len s)))))
(assert (forall ((s Str) (a Int) (b Int)) (! (=> (and (<= 0 a) (<= a b) (<= b (str_len s))) (= (str_len (str_sub s a b)) (- b a))) :pattern ((str_len (str_sub s a b))))))
(assert (forall ((s Str) (n Int)) (! (=> (= n (str_len s)) (= (str_sub s 0 n) s)) :pattern ((str_sub s 0 n)))))
(assert (forall ((s Str) (a Int) (b Int) (i Int)) (! (=> (and (<= 0 a) (<= a b) (<= b (str_len s)) (<= 0 i) (< i (- b a))) (= (str_at (str_sub s a b) i) (str_at s (+ a i)))) :pattern ((str_at (str_sub s a b) i)))))
(assert (forall ((s Str) (a Int) (b Int) (c Int) (d Int)) (! (=> (and (<= 0 a) (<= a b) (<= b (str_len s)) (<= 0 c) (<= c d) (<= d (- b a))) (= (str_sub (str_sub s a b) c d) (str_sub s (+ a c) (+ a d)))) :pattern ((str_sub (str_sub s a b) c d)))))
(assert (forall ((s Str) (t Str)) (! (= (str_len (str_cat s t)) (+ (str_len s) (str_len t))) :pattern ((str_cat s t)))))
(assert (forall ((s Str)) (! (= (str_cat s str_empty) s) :pattern ((str_cat s str_empty)))))
(assert (forall ((s Str)) (! (= (str_cat str_empty s) s) :pattern ((str_cat str_empty s)))))
(assert (forall ((s Str) (t Str) (u Str)) (! (= (str_cat (str_cat s t) u) (str_cat s (str_cat t u))) :pattern ((str_cat (str_cat s t) u)))))
(assert (forall ((s Str) (a Int) (b Int) (c Int)) (! (=> (and (<= 0 a) (<= a b) (<= b c) (<= c (str_len s))) (= (str_cat (str_sub s a b) (str_sub s b c)) (str_sub s a c))) :pattern ((str_cat (str_sub s a b) (str_sub s b c))))))
(assert (forall ((s Str) (t Str) (a Int) (b Int)) (! (and (=> (and (= a 0) (= b (str_len s))) (= (str_sub (str_cat s t) a b) s)) (=> (and (= a (str_len s)) (= b (+ (str_len s) (str_len t)))) (= (str_sub (str_cat s t) a b) t))) :pattern ((str_sub (str_cat s t) a b)))))
(assert (forall ((s Str) (a Int)) (! (=> (and (<= 0 a) (<= a (str_len s))) (= (str_sub s a a) str_empty)) :pattern ((str_sub s a a)))))`},
	{"count", []string{"str_count"}, `(assert (forall ((s Str) (c Int)) (! (>= (str_count s c) 0) :pattern ((str_count s c)))))
(assert (forall ((c Int)) (! (= (str_count str_empty c) 0) :pattern ((str_count str_empty c)))))
(assert (forall ((s Str) (t Str) (c Int)) (! (= (str_count (str_cat s t) c) (+ (str_count s c) (str_count t c))) :pattern ((str_count (str_cat s t) c)))))
(assert (forall ((s Str) (a Int) (b Int) (m Int) (c Int)) (! (=> (and (<= 0 a) (<= a m) (<= m b) (<= b (str_len s))) (= (str_count (str_sub s a b) c) (+ (str_count (str_sub s a m) c) (str_count (str_sub s m b) c)))) :pattern ((str_count (str_sub s a b) c) (str_count (str_sub s a m) c) (str_count (str_sub s m b) c)))))`},
	{"trim", []string{"str_ltrim", "str_rtrim", "str_stripws", "str_lspace", "str_rspace"}, `; whitespace trimming: ltrim/rtrim drop a whitespace-only prefix/suffix
(assert (forall ((s Str)) (! (and (<= 0 (str_rspace s)) (<= (str_rspace s) (str_len s)) (= (str_rtrim s) (str_sub s 0 (- (str_len s) (str_rspace s))))) :pattern ((str_rtrim s)))))
(assert (forall ((s Str)) (! (= (str_stripws (str_rtrim s)) (str_stripws s)) :pattern ((str_rtrim s)))))
(assert (forall ((s Str) (t Str)) (! (= (str_stripws (str_cat s t)) (str_cat (str_stripws s) (str_stripws t))) :pattern ((str_stripws (str_cat s t))))))`},
	{"strlt", []string{"str_lt"}, `(assert (forall ((s Str)) (! (and (<= 0 (str_lspace s)) (<= (str_lspace s) (str_len s)) (= (str_ltrim s) (str_sub s (str_lspace s) (str_len s)))) :pattern ((str_ltrim s)))))
(assert (forall ((s Str)) (! (= (str_stripws (str_ltrim s)) (str_stripws s)) :pattern ((str_ltrim s)))))
(assert (= (str_ltrim str_empty) str_empty))
(assert (forall ((a Str) (b Str)) (! (=> (str_lt a b) (and (not (str_lt b a)) (not (= a b)))) :pattern ((str_lt a b)))))
(assert (forall ((a Str) (b Str)) (! (or (str_lt a b) (str_lt b a) (= a b)) :pattern ((str_lt a b)))))`},
	{"arr2str", []string{"arr2str"}, `; byte slices viewed as strings: arr2str(contents, off, len)
(assert (forall ((a (Array Int Int)) (o Int) (n Int)) (! (=> (>= n 0) (= (str_len (arr2str a o n)) n)) :pattern ((arr2str a o n)))))
(assert (forall ((a (Array Int Int)) (o Int) (n Int) (i Int)) (! (=> (and (<= 0 i) (< i n)) (= (str_at (arr2str a o n) i) (select a (+ o i)))) :pattern ((str_at (arr2str a o n) i)))))
(assert (forall ((a (Array Int Int)) (o Int) (n Int) (x Int) (y Int)) (! (=> (and (<= 0 x) (<= x y) (<= y n)) (= (str_sub (arr2str a o n) x y) (arr2str a (+ o x) (- y x)))) :pattern ((str_sub (arr2str a o n) x y)))))
`},
	{"rune", []string{"str_runecount", "str_hasprefix"}, `(assert (forall ((s Str)) (! (and (<= 0 (str_runecount s)) (<= (str_runecount s) (str_len s))) :pattern ((str_runecount s)))))
(assert (forall ((s Str) (p Str)) (! (= (str_hasprefix s p) (and (<= (str_len p) (str_len s)) (= (str_sub s 0 (str_len p)) p))) :pattern ((str_hasprefix s p)))))`},
}
