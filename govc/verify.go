package main

import (
	"fmt"
	"go/types"
	"sort"
	"strings"

	"golang.org/x/tools/go/ssa"
)

type FuncResult struct {
	Sel         string
	Obs         []*Obligation
	Unsupported []string
	Assumptions []string
	SpecErrors  []string
	Uncontract  []string
	Paths       int
	Returns     int
	Props       []string
}

func newState(ex *Exec) *State {
	st := &State{heaps: map[string]Term{}, hsorts: map[string]string{}, hver: map[string]int{}, pending: map[string][]pendingFrame{}, globals: map[string]Term{}, ghosts: map[string]Term{}, gsorts: map[string]string{}, panicOK: map[string]bool{}}
	ex.d.declConst("alloc@0", SInt)
	st.alloc0 = mk(SInt, "alloc@0")
	st.alloc = st.alloc0
	st.assume(gt(st.alloc0, intLit(0)))
	return st
}

// verifyFunc generates all obligations of one function under contract.
func (w *World) verifyFunc(sel string, con *Contract) *FuncResult {
	res := &FuncResult{Sel: sel, Props: con.Props}
	fn := w.fns[sel]
	if fn == nil {
		res.SpecErrors = append(res.SpecErrors, fmt.Sprintf("%s:%d: contract selector %q does not resolve to a function", con.File, con.Line, sel))
		return res
	}
	// every "at call" directive must designate at least one call site of this function:
	// a directive that matches nothing would silently check nothing
	if len(con.Ats) > 0 {
		counts := map[string]int{}
		for _, b := range fn.Blocks {
			for _, in := range b.Instrs {
				if ci, ok := in.(ssa.CallInstruction); ok {
					name := calleeName(ci.Common())
					if bi, ok := ci.Common().Value.(*ssa.Builtin); ok {
						name = bi.Name()
					}
					counts[name]++
				}
			}
		}
		for _, a := range con.Ats {
			if counts[a.Callee] == 0 || a.Ordinal > counts[a.Callee] {
				res.SpecErrors = append(res.SpecErrors, fmt.Sprintf("%s:%d: 'at call %s #%d' matches no call site of %s (%d calls of that name)", a.File, a.Line, a.Callee, a.Ordinal, sel, counts[a.Callee]))
			}
		}
		if len(res.SpecErrors) > 0 {
			return res
		}
	}
	if con.Expect != "" && con.Expect != shortName(fn.Signature.String()) {
		res.SpecErrors = append(res.SpecErrors, fmt.Sprintf("%s:%d: %s has signature %s, contract expects %s", con.File, con.Line, sel, shortName(fn.Signature.String()), con.Expect))
		return res
	}
	var replayInfo *ReplayInfo
	ex := newExec(w, fn, sel, con)
	ex.uncontracted = map[string]bool{}
	ex.specErrors = map[string]bool{}
	if con.File == "sweep" {
		// a zero-annotation function that implements a contracted interface method (or is used
		// as a contracted function type) is held to that contract's panics and frame, which is
		// all its callers know
		for _, im := range ex.implemented() {
			var keep []string
			for _, p := range con.Panics {
				for _, q := range im.m.Panics {
					if p == q {
						keep = append(keep, p)
					}
				}
			}
			con.Panics = keep
			if im.m.Pure {
				con.HasAssign, con.Assigns = true, nil
			} else if im.m.HasAssign {
				con.HasAssign, con.Assigns = true, im.m.Assigns
			}
		}
	}
	st := newState(ex)
	for _, p := range con.Panics {
		st.panicOK[p] = true
	}
	for _, p := range con.Recovers {
		st.panicOK[p] = true
		ex.d.trust("recover() in " + sel + " is assumed to turn a panic of type " + p + " into a returned error (the model does not execute recover)")
	}
	ex.entryBinds = map[string]TT{}
	var args []Value
	for _, p := range fn.Params {
		v := ex.freshOfType(st, "p_"+p.Name(), p.Type())
		args = append(args, v)
		ex.entryBinds[p.Name()] = TT{T: v, Ty: p.Type()}
	}
	var fvs []Value
	var fvRefs []Term
	for _, fv := range fn.FreeVars {
		pt, ok := types.Unalias(fv.Type()).Underlying().(*types.Pointer)
		if !ok {
			v := ex.freshOfType(st, "fv_"+fv.Name(), fv.Type())
			fvs = append(fvs, v)
			ex.entryBinds[fv.Name()] = TT{T: v, Ty: fv.Type()}
			continue
		}
		r := ex.fresh("fvref_"+fv.Name(), SInt)
		st.assume(and(gt(r, intLit(0)), lt(r, st.alloc0)))
		for _, o := range fvRefs {
			st.assume(not(eq(r, o)))
		}
		fvRefs = append(fvRefs, r)
		fvs = append(fvs, &PtrV{Base: r, Root: pt.Elem(), FreeVar: true})
	}
	ok := ex.protect(func() {
		// ghosts
		c0 := &SpecCtx{ex: ex, st: st, binds: ex.entryBinds, bound: map[string]string{}, pkg: pkgOf(fn)}
		// captured variables are visible by name in requires
		fr0 := &Frame{fn: fn, env: map[ssa.Value]Value{}, freeVar: fvs}
		for i, p := range fn.Params {
			fr0.env[p] = args[i]
		}
		c0.frame = fr0
		for _, g := range con.Ghosts {
			c0.clause = &Clause{File: con.File, Line: con.Line, Text: g.Init}
			var t Term
			if gs, gty := ex.ghostSort(c0, g.Sort); gty != nil {
				if ex.ghostTypes == nil {
					ex.ghostTypes = map[string]types.Type{}
				}
				ex.ghostTypes[g.Name] = gty
				g.Sort = gs
			}
			if g.Sort == SBool {
				t = ex.safeFormula(c0, g.Init)
			} else if strings.HasPrefix(g.Init, "const ") {
				// const <value>: constant array
				v := ex.safeExpr(c0, strings.TrimPrefix(g.Init, "const "))
				t = ex.constArr(g.Sort, v.T)
			} else {
				t = ex.safeExpr(c0, g.Init).T
			}
			if t.S == nilVal.S && g.Sort != SVal {
				switch g.Sort {
				case SSlc:
					t = mkSlc(intLit(0), intLit(0), intLit(0), intLit(0))
				case SInt:
					t = intLit(0)
				}
			}
			st.ghosts[g.Name] = Term{S: t.S, Sort: g.Sort}
			st.gsorts[g.Name] = g.Sort
		}
		if fn.Signature.Recv() != nil && len(fn.Params) > 0 {
			if t, ok := args[0].(Term); ok {
				st.assume(ex.typeInv(st, fn.Params[0].Type(), t))
			}
		}
		for i := range con.Requires {
			c0.clause = &con.Requires[i]
			st.assume(ex.safeFormula(c0, con.Requires[i].Text))
		}
		for i := range con.Assumes {
			c0.clause = &con.Assumes[i]
			st.assume(ex.safeFormula(c0, con.Assumes[i].Text))
			ex.note("ASSUMED (not demanded of callers): %s assumes %s", sel, con.Assumes[i].Text)
			ex.d.trust("assumed input well-formedness: " + sel + " assumes " + con.Assumes[i].Label + ": " + con.Assumes[i].Text)
		}
		if len(con.Implements) > 0 {
			for i := range con.Requires {
				ex.note("closure precondition assumed at its call sites (an invariant of the captured state, established where the closure is created): %s requires %s", sel, con.Requires[i].Text)
			}
		}
		for _, ftn := range con.Implements {
			ft := w.cons["functype "+ftn]
			if ft == nil {
				ex.specErrors[fmt.Sprintf("%s:%d: unknown function-type contract %q", con.File, con.Line, ftn)] = true
				continue
			}
			cf := ex.functypeCtx(st, nil, ft, fn, args)
			for i := range ft.Requires {
				cf.clause = &ft.Requires[i]
				st.assume(ex.safeFormula(cf, ft.Requires[i].Text))
			}
		}
		// interface requires are available to implementations too (weaker or equal precondition is checked by impl-pre)
		ex.entry = st.snapshot()
		ex.entryPC = len(st.pc)
		func() {
			defer func() { recover() }()
			replayInfo = ex.prepareReplay(st, fn, args)
		}()
		ex.coverEntry(st)
		ex.enter(st, fn, args, fvs, func(st2 *State, results []Value) { ex.checkPost(st2, results) })
	})
	_ = ok
	ex.implObligations(res)
	res.Obs = ex.obs
	res.Paths = ex.paths
	res.Returns = ex.returns
	for u := range ex.unsupported {
		res.Unsupported = append(res.Unsupported, u)
	}
	for a := range ex.assumptions {
		res.Assumptions = append(res.Assumptions, a)
	}
	for e := range ex.specErrors {
		res.SpecErrors = append(res.SpecErrors, e)
	}
	for u := range ex.uncontracted {
		res.Uncontract = append(res.Uncontract, u)
	}
	sort.Strings(res.Unsupported)
	sort.Strings(res.Assumptions)
	sort.Strings(res.SpecErrors)
	sort.Strings(res.Uncontract)
	for _, ob := range ex.obs {
		ob.Trusted = ex.d.trusted()
		ob.ifacePreds = ex.ifacePreds
		ob.world = w
		ob.Replay = replayInfo
	}
	return res
}

// protect runs f, absorbing path aborts (recorded in ex.unsupported).
func (ex *Exec) protect(f func()) (ok bool) {
	defer func() {
		if r := recover(); r != nil {
			if _, is := r.(abortPath); is {
				ok = false
				return
			}
			panic(r)
		}
	}()
	f()
	return true
}

// coverEntry: the entry assumptions (requires + type facts) must be satisfiable.
func (ex *Exec) coverEntry(st *State) {
	ob := &Obligation{Name: ex.sel + "/cover#entry", Kind: "cover", Func: ex.sel, PC: append([]Term(nil), st.pc...), Goal: tFalse, Decls: ex.d, Cover: true,
		Descr: "vacuity guard: the function's preconditions are satisfiable"}
	if ex.con != nil {
		ob.Props = ex.con.Props
	}
	ex.obs = append(ex.obs, ob)
}

// coverPoint: a reachability guard inside the function. All guards of one group (a loop head,
// "some return") are alternatives: the group is vacuous only when every member's assumptions
// are refuted, i.e. no explored path reaches that point with consistent assumptions.
func (ex *Exec) coverPoint(st *State, group string, descr string) {
	if ex.coverCount == nil {
		ex.coverCount = map[string]int{}
	}
	ex.coverCount[group]++
	if ex.coverCount[group] > 8 {
		return
	}
	ob := &Obligation{Name: fmt.Sprintf("%s/cover#%s.%d", ex.sel, group, ex.coverCount[group]), Kind: "cover", Func: ex.sel, PC: append([]Term(nil), st.pc...), Goal: tFalse, Decls: ex.d, Cover: true,
		Group: ex.sel + "/cover#" + group, Descr: descr}
	if ex.con != nil {
		ob.Props = ex.con.Props
	}
	ex.obs = append(ex.obs, ob)
}

func (ex *Exec) checkPost(st *State, results []Value) {
	ex.returns++
	ex.coverPoint(st, "return", "vacuity guard: some path reaches a return with satisfiable assumptions")
	fn := ex.fn
	fr := &Frame{fn: fn, env: map[ssa.Value]Value{}}
	c := &SpecCtx{ex: ex, st: st, old: ex.entry, binds: map[string]TT{}, bound: map[string]string{}, pkg: pkgOf(fn), frame: nil}
	_ = fr
	for n, v := range ex.entryBinds {
		c.binds[n] = v
	}
	sig := fn.Signature
	for i, r := range results {
		rt := sig.Results().At(i).Type()
		var tt TT
		switch v := r.(type) {
		case Term:
			tt = TT{T: v, Ty: rt}
		case *ClosureV:
			tt = TT{T: v.T, Ty: rt}
		case *PtrV:
			tt = TT{T: c.ptrTerm(v), Ty: rt, P: v}
		default:
			continue
		}
		c.binds[fmt.Sprintf("result%d", i)] = tt
		if i == 0 {
			c.binds["result"] = tt
		}
		if n := sig.Results().At(i).Name(); n != "" && n != "_" {
			c.binds[n] = tt
		}
	}
	// locals and captured variables are visible by name with their final values
	if ex.lastFrame != nil && ex.lastFrame.fn == fn && ex.lastRet != nil {
		if len(st.frames) == 0 {
			// locals living in frame cells must stay reachable while the postconditions are evaluated
			st.frames = append(st.frames, ex.lastFrame)
			defer func() { st.frames = st.frames[:0] }()
		}
		c.frame = ex.lastFrame
		c.at = ex.lastRet.Block()
		c.atIdx = instrIndex(ex.lastRet)
	} else if len(fn.FreeVars) > 0 {
		c.frame = &Frame{fn: fn, env: map[ssa.Value]Value{}, freeVar: ex.topFreeVars}
	}
	for i := range ex.con.Ensures {
		cl := &ex.con.Ensures[i]
		if cl.Assumed {
			ex.d.trust("ASSUMED postcondition (not proved): " + ex.sel + " " + cl.Label + ": " + cl.Text)
			continue
		}
		c.clause = cl
		g := ex.safeFormula(c, cl.Text)
		lbl := cl.Label
		if lbl == "" {
			lbl = fmt.Sprintf("ensures%d", i+1)
		}
		ex.oblige(st, "post", lbl, nil, g, "postcondition: "+cl.Text)
		// later clauses may rely on earlier ones (each is proved in turn)
		st.assume(g)
	}
	// a pointer receiver's type invariant is re-established on exit
	if fn.Signature.Recv() != nil && len(fn.Params) > 0 {
		if _, isPtr := types.Unalias(fn.Params[0].Type()).Underlying().(*types.Pointer); isPtr {
			if rv := ex.entryBinds[fn.Params[0].Name()]; !rv.T.IsZero() {
				if inv := ex.typeInv(st, fn.Params[0].Type(), rv.T); inv.S != "true" {
					ex.oblige(st, "typeinv", "exit", nil, inv, "type invariant of the receiver holds on return")
				}
			}
		}
	}
	// function-type contracts this function is used as
	for _, ftn := range ex.con.Implements {
		ft := ex.w.cons["functype "+ftn]
		if ft == nil {
			continue
		}
		var args []Value
		for _, p := range fn.Params {
			args = append(args, ex.entryBinds[p.Name()].T)
		}
		cf := ex.functypeCtx(st, ex.entry, ft, fn, args)
		for k, v := range c.binds {
			if strings.HasPrefix(k, "result") {
				cf.binds[k] = v
			}
		}
		for i := range ft.Ensures {
			cl := &ft.Ensures[i]
			cf.clause = cl
			g := ex.safeFormula(cf, cl.Text)
			lbl := cl.Label
			if lbl == "" {
				lbl = fmt.Sprintf("ensures%d", i+1)
			}
			ex.oblige(st, "impl", "functype."+lbl, nil, g, "function-type postcondition ("+ftn+"): "+cl.Text)
		}
	}
	// interface contracts this method implements
	for _, im := range ex.implemented() {
		cc := *c
		cc.binds = map[string]TT{}
		for k, v := range c.binds {
			cc.binds[k] = v
		}
		recv := fn.Params[0]
		rv := ex.entryBinds[recv.Name()]
		cc.binds["this"] = TT{T: ex.w.box(recv.Type(), rv.T, ex.d), Ty: im.it}
		for j := 0; j < im.sig.Params().Len(); j++ {
			pn := im.sig.Params().At(j).Name()
			if pn != "" && pn != "_" && j+1 < len(fn.Params) {
				cc.binds[pn] = ex.entryBinds[fn.Params[j+1].Name()]
			}
			if j+1 < len(fn.Params) {
				cc.binds[fmt.Sprintf("arg%d", j)] = ex.entryBinds[fn.Params[j+1].Name()]
			}
		}
		for i := range im.m.Ensures {
			cl := &im.m.Ensures[i]
			cc.clause = cl
			g := ex.safeFormula(&cc, cl.Text)
			lbl := cl.Label
			if lbl == "" {
				lbl = fmt.Sprintf("ensures%d", i+1)
			}
			ex.oblige(st, "impl", shortSel(im.ic.Sel)+"."+im.m.Name+"."+lbl, nil, g, "interface postcondition: "+cl.Text)
		}
	}
}

type implInfo struct {
	ic  *IfaceContract
	m   *IfaceMethod
	it  types.Type
	sig *types.Signature
}

// implemented lists the contracted interface methods the function under
// verification implements.
func (ex *Exec) implemented() []implInfo {
	fn := ex.fn
	if fn.Signature.Recv() == nil || len(fn.Params) == 0 {
		return nil
	}
	rt := fn.Signature.Recv().Type()
	var out []implInfo
	var sels []string
	for s := range ex.w.ifaces {
		sels = append(sels, s)
	}
	sort.Strings(sels)
	for _, s := range sels {
		ic := ex.w.ifaces[s]
		m := ic.Methods[fn.Name()]
		if m == nil {
			continue
		}
		it := ex.w.lookupType(ic.Sel)
		if it == nil {
			continue
		}
		iface, ok := types.Unalias(it).Underlying().(*types.Interface)
		if !ok || !types.Implements(rt, iface) {
			continue
		}
		for i := 0; i < iface.NumMethods(); i++ {
			if iface.Method(i).Name() == fn.Name() {
				out = append(out, implInfo{ic, m, it, iface.Method(i).Type().(*types.Signature)})
			}
		}
	}
	return out
}

// implObligations: the interface precondition implies the implementation's.
func (ex *Exec) implObligations(res *FuncResult) {
	if ex.con.AssumesImpl != "" {
		ex.d.trust("assumed for " + ex.sel + " (its declared effects exceed the interface method it implements): " + ex.con.AssumesImpl)
	}
	// the same for the function types this function is used as
	for _, ftn := range ex.con.Implements {
		ft := ex.w.cons["functype "+ftn]
		if ft == nil || ex.con.AssumesImpl != "" {
			continue
		}
		for _, p := range ex.con.Panics {
			ok := false
			for _, q := range ft.Panics {
				if q == p || q == "any" {
					ok = true
				}
			}
			if !ok {
				ex.oblige(newState(ex), "impl", "functype.panics."+p, nil, tFalse, "implementation declares panic type "+p+" which function type "+ftn+" does not allow")
			}
		}
		if ft.HasAssign && !ft.Pure {
			impl := ex.con.Assigns
			if !ex.con.HasAssign && !ex.con.Pure {
				impl = []string{"*"}
			}
			for _, a := range impl {
				if strings.HasPrefix(a, "alloc ") {
					continue
				}
				ok := false
				for _, q := range ft.Assigns {
					if q == "*" || q == a || (strings.HasSuffix(q, "*") && strings.HasPrefix(a, strings.TrimSuffix(q, "*"))) {
						ok = true
					}
				}
				if !ok {
					ex.oblige(newState(ex), "impl", "functype.assigns."+a, nil, tFalse, "implementation may write "+a+" which function type "+ftn+" does not list")
				}
			}
		}
	}
	for _, im := range ex.implemented() {
		// callers that go through the interface see only the panics the interface method
		// declares: the implementation may not add any
		for _, p := range ex.con.Panics {
			ok := false
			for _, q := range im.m.Panics {
				if q == p || q == "any" {
					ok = true
				}
			}
			if !ok && ex.con.AssumesImpl == "" {
				st := newState(ex)
				ex.oblige(st, "impl", shortSel(im.ic.Sel)+"."+im.m.Name+".panics."+p, nil, tFalse, "implementation declares panic type "+p+" which the interface method "+im.ic.Sel+"."+im.m.Name+" does not allow")
			}
		}
		// ... and the frame they assume is the interface method's: the implementation may not
		// write (other than into memory it allocates) a heap the interface method does not list
		if im.m.HasAssign && !im.m.Pure {
			impl := ex.con.Assigns
			if !ex.con.HasAssign && !ex.con.Pure {
				impl = []string{"*"}
			}
			for _, a := range impl {
				if strings.HasPrefix(a, "alloc ") {
					continue
				}
				ok := false
				for _, q := range im.m.Assigns {
					if q == "*" || q == a || (strings.HasSuffix(q, "*") && strings.HasPrefix(a, strings.TrimSuffix(q, "*"))) {
						ok = true
					}
				}
				if !ok && ex.con.AssumesImpl == "" {
					st := newState(ex)
					ex.oblige(st, "impl", shortSel(im.ic.Sel)+"."+im.m.Name+".assigns."+a, nil, tFalse, "implementation may write "+a+" which the interface method "+im.ic.Sel+"."+im.m.Name+" does not list")
				}
			}
		}
		if len(ex.con.Requires) == 0 {
			continue
		}
		ex.protect(func() {
			st := newState(ex)
			binds := map[string]TT{}
			ibinds := map[string]TT{}
			for i, p := range ex.fn.Params {
				v := ex.freshOfType(st, "ip_"+p.Name(), p.Type())
				binds[p.Name()] = TT{T: v, Ty: p.Type()}
				if i == 0 {
					ibinds["this"] = TT{T: ex.w.box(p.Type(), v, ex.d), Ty: im.it}
				} else if i-1 < im.sig.Params().Len() {
					pn := im.sig.Params().At(i - 1).Name()
					if pn != "" && pn != "_" {
						ibinds[pn] = TT{T: v, Ty: p.Type()}
					}
					ibinds[fmt.Sprintf("arg%d", i-1)] = TT{T: v, Ty: p.Type()}
				}
			}
			if t := binds[ex.fn.Params[0].Name()]; !t.T.IsZero() {
				st.assume(ex.typeInv(st, ex.fn.Params[0].Type(), t.T))
			}
			ci := &SpecCtx{ex: ex, st: st, old: st, binds: ibinds, bound: map[string]string{}, pkg: pkgOf(ex.fn)}
			for i := range im.m.Requires {
				ci.clause = &im.m.Requires[i]
				st.assume(ex.safeFormula(ci, im.m.Requires[i].Text))
			}
			cc := &SpecCtx{ex: ex, st: st, old: st, binds: binds, bound: map[string]string{}, pkg: pkgOf(ex.fn)}
			for i := range ex.con.Requires {
				cc.clause = &ex.con.Requires[i]
				g := ex.safeFormula(cc, ex.con.Requires[i].Text)
				ex.oblige(st, "impl-pre", shortSel(im.ic.Sel)+"."+im.m.Name, nil, g, "interface precondition implies implementation precondition: "+ex.con.Requires[i].Text)
			}
		})
	}
}

// verifyLemma: a formula that must follow from contracts and definitions alone.
func (w *World) verifyLemma(l *Lemma) *FuncResult {
	sel := "lemma " + l.Name
	res := &FuncResult{Sel: sel, Props: l.Props}
	con := &Contract{Sel: sel, Props: l.Props, Loops: map[int]*LoopSpec{}}
	ex := newExec(w, nil, sel, con)
	ex.uncontracted = map[string]bool{}
	ex.specErrors = map[string]bool{}
	st := newState(ex)
	ex.protect(func() {
		c := &SpecCtx{ex: ex, st: st, old: st, binds: map[string]TT{}, bound: map[string]string{}, clause: &Clause{File: l.File, Line: l.Line, Text: l.Text}}
		for _, v := range l.Vars {
			fs := strings.SplitN(v, " ", 2)
			if len(fs) != 2 {
				c.failf("bad lemma variable %q", v)
			}
			name, srt := fs[0], strings.TrimSpace(fs[1])
			var ty types.Type
			if t := w.lookupType(srt); t != nil {
				ty = t
				srt = w.sortOf(t, ex.d)
			}
			t := ex.fresh("lv_"+name, srt)
			if ty != nil {
				ex.assumeTypeFacts(st, ty, t)
			}
			c.binds[name] = TT{T: t, Ty: ty}
		}
		g := ex.safeFormula(c, l.Text)
		ex.oblige(st, "lemma", l.Name, nil, g, "lemma: "+l.Text)
	})
	res.Obs = ex.obs
	for e := range ex.specErrors {
		res.SpecErrors = append(res.SpecErrors, e)
	}
	for u := range ex.unsupported {
		res.Unsupported = append(res.Unsupported, u)
	}
	for _, ob := range ex.obs {
		ob.Trusted = ex.d.trusted()
		ob.ifacePreds = ex.ifacePreds
		ob.world = w
	}
	return res
}

// typeInv returns the declared type invariant of t applied to v (true if none).
func (ex *Exec) typeInv(st *State, t types.Type, v Term) Term {
	t = types.Unalias(t)
	if p, ok := t.Underlying().(*types.Pointer); ok {
		if _, isNamed := t.(*types.Named); !isNamed {
			cl := ex.w.typeInvs[typeString(p.Elem())]
			if cl == nil {
				return tTrue
			}
			pv := &PtrV{Base: v, Root: p.Elem()}
			c := &SpecCtx{ex: ex, st: st, old: st, binds: map[string]TT{"self": {T: v, Ty: t, P: pv}}, bound: map[string]string{}, clause: cl}
			if n := namedOf(t); n != nil {
				c.pkg = n.Obj().Pkg()
			}
			return and(not(eq(v, intLit(0))), ex.safeFormula(c, cl.Text))
		}
	}
	cl := ex.w.typeInvs[typeString(t)]
	if cl == nil {
		return tTrue
	}
	c := &SpecCtx{ex: ex, st: st, old: st, binds: map[string]TT{"self": {T: v, Ty: t}}, bound: map[string]string{}, clause: cl}
	if n := namedOf(t); n != nil {
		c.pkg = n.Obj().Pkg()
	}
	return ex.safeFormula(c, cl.Text)
}

// functypeCtx binds a function-type contract's parameter names to fn's parameters.
func (ex *Exec) functypeCtx(st *State, old *State, ft *Contract, fn *ssa.Function, args []Value) *SpecCtx {
	c := &SpecCtx{ex: ex, st: st, old: old, binds: map[string]TT{}, bound: map[string]string{}, pkg: pkgOf(fn)}
	if old == nil {
		c.old = st
	}
	for i, p := range fn.Params {
		if i >= len(args) {
			break
		}
		t, ok := args[i].(Term)
		if !ok {
			continue
		}
		tt := TT{T: t, Ty: p.Type()}
		c.binds[fmt.Sprintf("arg%d", i)] = tt
		if i < len(ft.Names) {
			c.binds[ft.Names[i]] = tt
		}
	}
	return c
}
