package main

import (
	"bytes"
	"context"
	"fmt"
	"go/types"
	"os"
	"os/exec"
	"path/filepath"
	"regexp"
	"sort"
	"strings"
	"sync"
	"time"
)

type SolverCfg struct {
	Timeout  time.Duration
	OutDir   string
	Parallel int
	KeepAll  bool
	Thorough bool
}

var heapSymRe = regexp.MustCompile(`(?:H_[^ ()]+|v_H_[^ ()]+|v_apparr![0-9]+|v_cparr![0-9]+|v_m_h![0-9]+)`)

// litePC drops quantified path-condition entries that only talk about heap arrays the
// goal never mentions (dropping assumptions is always sound; it only shrinks the
// instantiation space of the solver).
func (ob *Obligation) litePC() []Term {
	goalSyms := map[string]bool{}
	for _, m := range heapSymRe.FindAllString(ob.Goal.S, -1) {
		goalSyms[heapFamily(m)] = true
	}
	// heaps mentioned by ground (quantifier-free) entries that share a non-heap symbol with the goal are kept too
	var out []Term
	for _, p := range ob.PC {
		if !strings.Contains(p.S, "(forall ") {
			out = append(out, p)
			continue
		}
		keep := false
		syms := heapSymRe.FindAllString(p.S, -1)
		if len(syms) == 0 {
			keep = true
		}
		for _, m := range syms {
			if goalSyms[heapFamily(m)] {
				keep = true
			}
		}
		if keep {
			out = append(out, p)
		}
	}
	return out
}

// heapFamily maps a versioned heap constant to its heap name.
func heapFamily(sym string) string {
	if i := strings.Index(sym, "@"); i > 0 {
		sym = sym[:i]
	}
	if i := strings.Index(sym, "!"); i > 0 {
		sym = sym[:i]
	}
	sym = strings.TrimPrefix(sym, "v_")
	return sym
}

// smtText renders an obligation as a complete SMT-LIB script.
func (ob *Obligation) smtText(withModel bool) string {
	return ob.smtTextPC(withModel, ob.PC)
}

func (ob *Obligation) smtTextPC(withModel bool, pc []Term) string {
	var b strings.Builder
	if withModel {
		b.WriteString("(set-option :produce-models true)\n")
	}
	b.WriteString(preludeBase)
	b.WriteString("; @AXIOM-GROUPS@\n")
	d := ob.Decls
	for _, t := range d.order {
		b.WriteString(t)
		b.WriteByte('\n')
	}
	// facts about interface predicates for every known concrete type
	var preds []string
	for p := range ob.ifacePreds {
		preds = append(preds, p)
	}
	sort.Strings(preds)
	var ids []int
	for id := range ob.world.typeByID {
		if d.has(fmt.Sprintf("tid:%d", id)) {
			ids = append(ids, id)
		}
	}
	sort.Ints(ids)
	for _, p := range preds {
		it := ob.ifacePreds[p]
		iface, ok := types.Unalias(it).Underlying().(*types.Interface)
		if !ok {
			continue
		}
		for _, id := range ids {
			t := ob.world.typeByID[id]
			v := "false"
			if types.Implements(t, iface) {
				v = "true"
			}
			fmt.Fprintf(&b, "(assert (= (%s %d) %s))\n", p, id, v)
		}
		fmt.Fprintf(&b, "(assert (not (%s 0)))\n", p)
	}
	for _, a := range d.axioms {
		b.WriteString(a)
		b.WriteByte('\n')
	}
	fmt.Fprintf(&b, "; obligation %s (%s)\n; %s\n", ob.Name, ob.Pos, strings.ReplaceAll(ob.Descr, "\n", " "))
	for _, p := range pc {
		fmt.Fprintf(&b, "(assert %s)\n", p.S)
	}
	if !ob.Cover {
		fmt.Fprintf(&b, "(assert (not %s))\n", ob.Goal.S)
	}
	b.WriteString("(check-sat)\n")
	if withModel {
		b.WriteString("(get-model)\n")
	}
	// include only the axiom groups whose trigger symbols occur
	text := b.String()
	body := text[len(preludeBase):]
	var groups strings.Builder
	included := map[string]bool{}
	for changed := true; changed; {
		changed = false
		for _, g := range axGroups {
			if included[g.name] {
				continue
			}
			for _, tr := range g.triggers {
				if strings.Contains(body, tr) || strings.Contains(groups.String(), tr) {
					included[g.name] = true
					groups.WriteString("; axiom group " + g.name + "\n" + g.text + "\n")
					changed = true
					break
				}
			}
		}
	}
	return strings.Replace(text, "; @AXIOM-GROUPS@\n", groups.String(), 1)
}

type solver struct {
	name string
	args func(timeoutMs int, file string) []string
}

// extra seeds raced in stage 2 (quantifier instantiation order is seed-sensitive)
var seedSolvers = []solver{
	{"z3-new/seed0", func(ms int, f string) []string {
		return []string{"z3-new", fmt.Sprintf("-T:%d", (ms+999)/1000), "smt.random_seed=0", f}
	}},
	{"z3-new/seed3", func(ms int, f string) []string {
		return []string{"z3-new", fmt.Sprintf("-T:%d", (ms+999)/1000), "smt.random_seed=3", f}
	}},
}

var solvers = []solver{
	{"z3-new", func(ms int, f string) []string {
		return []string{"z3-new", fmt.Sprintf("-T:%d", (ms+999)/1000), "smt.random_seed=7", f}
	}},
	{"cvc5", func(ms int, f string) []string {
		return []string{"cvc5", fmt.Sprintf("--tlimit=%d", ms), "--lang=smt2", f}
	}},
	{"z3", func(ms int, f string) []string {
		return []string{"z3", fmt.Sprintf("-T:%d", (ms+999)/1000), "smt.random_seed=7", f}
	}},
}

func runSolver(s solver, file string, timeout time.Duration) (status, output string, secs float64) {
	return runSolverCtx(context.Background(), s, file, timeout)
}

// procSem bounds the number of solver processes running at once (one per core).
var procSem = make(chan struct{}, 14)

func runSolverCtx(parent context.Context, s solver, file string, timeout time.Duration) (status, output string, secs float64) {
	select {
	case procSem <- struct{}{}:
	case <-parent.Done():
		return "cancelled", "", 0
	}
	defer func() { <-procSem }()
	ctx, cancel := context.WithTimeout(parent, timeout+2*time.Second)
	defer cancel()
	args := s.args(int(timeout/time.Millisecond), file)
	cmd := exec.CommandContext(ctx, args[0], args[1:]...)
	var out bytes.Buffer
	cmd.Stdout = &out
	cmd.Stderr = &out
	t0 := time.Now()
	cmd.Run()
	secs = time.Since(t0).Seconds()
	output = out.String()
	first := ""
	for _, l := range strings.Split(output, "\n") {
		l = strings.TrimSpace(l)
		if l == "" || strings.HasPrefix(l, "WARNING") || strings.HasPrefix(l, "(warning") {
			continue
		}
		first = l
		break
	}
	switch {
	case first == "unsat":
		return "unsat", output, secs
	case first == "sat":
		return "sat", output, secs
	case first == "unknown":
		return "unknown", output, secs
	case parent.Err() != nil:
		return "cancelled", output, secs
	case strings.Contains(first, "timeout") || ctx.Err() != nil:
		return "timeout", output, secs
	}
	return "error", output, secs
}

// discharge runs the solvers on every obligation.
func discharge(obs []*Obligation, cfg SolverCfg) {
	os.MkdirAll(cfg.OutDir, 0o755)
	var wg sync.WaitGroup
	sem := make(chan struct{}, cfg.Parallel)
	for _, ob := range obs {
		if !ob.Cover && ob.Goal.S == "true" {
			ob.Status, ob.Backend = "unsat", "syntactic"
			continue
		}
		wg.Add(1)
		sem <- struct{}{}
		go func(ob *Obligation) {
			defer wg.Done()
			defer func() { <-sem }()
			solveOne(ob, cfg)
		}(ob)
	}
	wg.Wait()
}

func solveOne(ob *Obligation, cfg SolverCfg) {
	fname := filepath.Join(cfg.OutDir, smtName("", strings.ReplaceAll(ob.Name, "/", "__"))+fmt.Sprintf("_%d.smt2", ob.Seq))
	text := ob.smtText(false)
	if err := os.WriteFile(fname, []byte(text), 0o644); err != nil {
		ob.Status, ob.Output = "error", err.Error()
		return
	}
	ob.File = fname
	var total float64
	var outputs []string
	if ob.Cover {
		// vacuity guard: the assumptions must not be refutable; one quick attempt
		st, out, secs := runSolver(solvers[0], fname, 1500*time.Millisecond)
		ob.Seconds = secs
		ob.Output = fmt.Sprintf("[%s: %s in %.2fs] %s", solvers[0].name, st, secs, firstLines(out, 3))
		if st != "unsat" && st != "sat" {
			// cvc5 refutes inconsistent quantified assumptions that z3 times out on (log item 19)
			st2, out2, secs2 := runSolver(solvers[1], fname, 3*time.Second)
			ob.Seconds += secs2
			ob.Output += fmt.Sprintf("\n[%s: %s in %.2fs] %s", solvers[1].name, st2, secs2, firstLines(out2, 3))
			if st2 == "unsat" || st2 == "sat" {
				st = st2
			}
		}
		if st != "unsat" && st != "sat" && ob.Group == "" && cfg.Thorough {
			// second opinion with a different seed and the older z3
			for _, alt := range []solver{{"z3-new/seed1", func(ms int, f string) []string {
				return []string{"z3-new", fmt.Sprintf("-T:%d", (ms+999)/1000), "smt.random_seed=1", f}
			}}, solvers[2]} {
				st2, out2, secs2 := runSolver(alt, fname, 3*time.Second)
				ob.Seconds += secs2
				ob.Output += fmt.Sprintf("\n[%s: %s in %.2fs] %s", alt.name, st2, secs2, firstLines(out2, 3))
				if st2 == "unsat" || st2 == "sat" {
					st = st2
					break
				}
			}
		}
		if st == "unsat" {
			// a refutation counts only when it is reproduced: the same query on z3 with another
			// seed, on cvc5 with another seed, or on the old z3 (a genuine inconsistency is found
			// again at once; a one-off answer is recorded but raises no alarm)
			confirm := []solver{
				{"z3-new/seed1", func(ms int, f string) []string {
					return []string{"z3-new", fmt.Sprintf("-T:%d", (ms+999)/1000), "smt.random_seed=1", f}
				}},
				{"cvc5/seed1", func(ms int, f string) []string {
					return []string{"cvc5", fmt.Sprintf("--tlimit=%d", ms), "--seed=1", "--lang=smt2", f}
				}},
				solvers[2],
			}
			confirmed := false
			for _, alt := range confirm {
				st2, out2, secs2 := runSolver(alt, fname, 10*time.Second)
				ob.Seconds += secs2
				ob.Output += fmt.Sprintf("\n[confirm %s: %s in %.2fs] %s", alt.name, st2, secs2, firstLines(out2, 3))
				if st2 == "unsat" {
					confirmed = true
					break
				}
				if st2 == "sat" {
					break
				}
			}
			if confirmed {
				ob.Status = "vacuous"
				return
			}
			st = "refuted-once-not-reproduced"
		}
		ob.Status, ob.Backend = "unsat", "cover:"+st
		if !cfg.KeepAll {
			os.Remove(fname)
			ob.File = ""
		}
		return
	}
	finish := func(sv solver, st, out string) {
		ob.Status, ob.Backend, ob.Seconds = st, sv.name, total
		ob.Output = strings.Join(outputs, "\n")
		if st == "sat" {
			// re-run with model production for the counterexample
			mfile := strings.TrimSuffix(fname, ".smt2") + ".model.smt2"
			os.WriteFile(mfile, []byte(ob.smtText(true)), 0o644)
			_, mout, _ := runSolver(sv, mfile, cfg.Timeout)
			ob.Model = mout
		}
		if !cfg.KeepAll && ob.Status == "unsat" {
			os.Remove(fname)
			os.Remove(strings.TrimSuffix(fname, ".smt2") + ".lite.smt2")
			ob.File = ""
		}
	}
	// stage 1: the usual winner alone, briefly
	quick := 3 * time.Second
	if cfg.Timeout < quick {
		quick = cfg.Timeout
	}
	{
		st, out, secs := runSolver(solvers[0], fname, quick)
		total += secs
		outputs = append(outputs, fmt.Sprintf("[%s: %s in %.2fs] %s", solvers[0].name, st, secs, firstLines(out, 3)))
		if st == "unsat" || st == "sat" {
			finish(solvers[0], st, out)
			return
		}
	}
	// stage 2: race all back ends with the full timeout; first definite answer wins
	type res struct {
		sv   solver
		st   string
		out  string
		secs float64
	}
	racers := append(append([]solver(nil), solvers...), seedSolvers...)
	// lite variant: irrelevant quantified heap assumptions dropped (only "unsat" is trusted from it)
	lfile := ""
	if lite := ob.litePC(); len(lite) < len(ob.PC) {
		lfile = strings.TrimSuffix(fname, ".smt2") + ".lite.smt2"
		os.WriteFile(lfile, []byte(ob.smtTextPC(false, lite)), 0o644)
		racers = append(racers, solver{"z3-new/lite", solvers[0].args}, solver{"z3-new/lite/seed0", seedSolvers[0].args})
	}
	ch := make(chan res, len(racers))
	ctx, cancel := context.WithCancel(context.Background())
	for _, sv := range racers {
		go func(sv solver) {
			file := fname
			if strings.Contains(sv.name, "/lite") {
				file = lfile
			}
			st, out, secs := runSolverCtx(ctx, sv, file, cfg.Timeout)
			if strings.Contains(sv.name, "/lite") && st != "unsat" {
				st = "unknown" // a model of the weakened query proves nothing
			}
			ch <- res{sv, st, out, secs}
		}(sv)
	}
	var winner *res
	maxSecs := 0.0
	for range racers {
		r := <-ch
		if r.secs > maxSecs {
			maxSecs = r.secs
		}
		outputs = append(outputs, fmt.Sprintf("[%s: %s in %.2fs] %s", r.sv.name, r.st, r.secs, firstLines(r.out, 3)))
		if winner == nil && (r.st == "unsat" || r.st == "sat") {
			rr := r
			winner = &rr
			cancel()
		}
	}
	cancel()
	total += maxSecs
	if winner != nil {
		total = total - maxSecs + winner.secs
		finish(winner.sv, winner.st, winner.out)
		return
	}
	ob.Status = "unknown"
	ob.Seconds = total
	ob.Output = strings.Join(outputs, "\n")
	// candidate counterexample: drop the quantified background axioms and ask for a model.
	// Such a model may violate an axiom; it is only ever used as a replay candidate.
	relaxed := stripQuantified(ob.smtText(true))
	rfile := strings.TrimSuffix(fname, ".smt2") + ".relaxed.smt2"
	os.WriteFile(rfile, []byte(relaxed), 0o644)
	if st, mout, _ := runSolver(solvers[0], rfile, cfg.Timeout); st == "sat" {
		ob.Model = "; candidate model with quantified axioms dropped\n" + mout
	}
	if ob.Cover {
		// inconclusive reachability is not a failure of the code; recorded only
		ob.Status, ob.Backend = "unsat", "inconclusive-cover"
	}
}

func firstLines(s string, n int) string {
	ls := strings.Split(strings.TrimSpace(s), "\n")
	if len(ls) > n {
		ls = ls[:n]
	}
	return strings.Join(ls, " | ")
}

// stripQuantified removes top-level assertions that contain quantifiers.
func stripQuantified(text string) string {
	var b strings.Builder
	for _, l := range strings.Split(text, "\n") {
		if strings.HasPrefix(l, "(assert ") && (strings.Contains(l, "(forall ") || strings.Contains(l, "(exists ")) {
			continue
		}
		b.WriteString(l)
		b.WriteByte('\n')
	}
	return b.String()
}
