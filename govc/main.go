package main

import (
	"encoding/json"
	"flag"
	"fmt"
	"go/types"
	"golang.org/x/tools/go/ssa"
	"os"
	"path/filepath"
	"regexp"
	"sort"
	"strings"
	"time"
)

type KnownFinding struct {
	Property   string `json:"property"`
	Obligation string `json:"obligation"`
	What       string `json:"what"`
	Status     string `json:"status"` // known | fixed
	Commit     string `json:"commit,omitempty"`
	Input      string `json:"input,omitempty"`
}

func loadKnown(path string) []KnownFinding {
	var ks []KnownFinding
	b, err := os.ReadFile(path)
	if err != nil {
		return nil
	}
	if err := json.Unmarshal(b, &ks); err != nil {
		fmt.Fprintf(os.Stderr, "govc: cannot parse %s: %v\n", path, err)
		os.Exit(2)
	}
	return ks
}

func hasProp(props []string, p string) bool {
	for _, x := range props {
		if x == p {
			return true
		}
	}
	return false
}

// stableName strips nothing today; obligation names are already path-independent.
func stableName(n string) string { return n }

func main() {
	if len(os.Args) < 2 {
		fmt.Fprintln(os.Stderr, "usage: govc check|dump|list ...")
		os.Exit(2)
	}
	cmd := os.Args[1]
	fs := flag.NewFlagSet(cmd, flag.ExitOnError)
	prop := fs.String("prop", "", "property id (C01..C20); empty = all contracts")
	tier := fs.String("tier", "quick", "quick|thorough")
	repo := fs.String("repo", "/repo", "repository root")
	verif := fs.String("verif", "/verif", "verification root")
	only := fs.String("func", "", "restrict to one contract selector")
	keep := fs.Bool("keep", false, "keep all SMT files")
	seed := fs.Int("seed", 0, "seed (recorded; proofs are seed-independent)")
	timeout := fs.Int("timeout", 0, "per-query timeout in seconds (default 10 quick / 60 thorough)")
	fs.Parse(os.Args[2:])
	t0 := time.Now()

	w, err := loadWorld(*repo)
	if err != nil {
		fmt.Fprintf(os.Stderr, "govc: load failed: %v\n", err)
		// a tree that does not build cannot be checked; report as violation of the requested property
		if *prop != "" {
			failHard(*verif, *prop, *tier, *seed, "repository does not load: "+err.Error(), t0)
		}
		os.Exit(2)
	}
	specs, _ := filepath.Glob(filepath.Join(*verif, "contracts", "*.spec"))
	sort.Strings(specs)
	if err := w.loadContracts(specs...); err != nil {
		fmt.Fprintf(os.Stderr, "govc: contracts: %v\n", err)
		if *prop != "" {
			failHard(*verif, *prop, *tier, *seed, "contract files do not parse: "+err.Error(), t0)
		}
		os.Exit(2)
	}
	loadSecs := time.Since(t0).Seconds()

	switch cmd {
	case "list":
		var sels []string
		for s, c := range w.cons {
			if !c.External {
				sels = append(sels, fmt.Sprintf("%-60s %v", s, c.Props))
			}
		}
		sort.Strings(sels)
		fmt.Println(strings.Join(sels, "\n"))
		return
	case "fns":
		for _, fn := range w.allFns {
			n := shortName(fn.String())
			if *only == "" || strings.Contains(n, *only) {
				var ps []string
				for _, p := range fn.Params {
					ps = append(ps, p.Name())
				}
				fmt.Printf("%-70s synthetic=%q params=%v blocks=%d\n", n, fn.Synthetic, ps, len(fn.Blocks))
			}
		}
		return
	case "mods":
		w.computeMods()
		if fn := w.fns[*only]; fn != nil {
			fmt.Println(strings.Join(modNames(w.modsOf(fn)), "\n"))
		}
		return
	}

	theWorld = w
	// select contracts
	var sels, unverified []string
	for s, c := range w.cons {
		if c.External || c.Trusted && c.External {
			continue
		}
		if strings.HasPrefix(s, "functype ") {
			continue
		}
		if *only != "" && s != *only {
			continue
		}
		if *prop != "" && !hasProp(c.Props, *prop) {
			continue
		}
		if c.Unverified {
			unverified = append(unverified, s)
			continue
		}
		sels = append(sels, s)
	}
	sort.Strings(sels)
	var results []*FuncResult
	for _, s := range sels {
		results = append(results, w.verifyFunc(s, w.cons[s]))
	}
	// zero-annotation safety sweep (C01): functions without a contract are verified against the
	// empty contract - arbitrary well-typed arguments, no precondition - for the safety
	// obligations only (nil, bounds, assertions, division, comparisons, make, explicit panics
	// other than the typed panic values that Evaluate turns into errors). `govc sweep` tries
	// every uncontracted function and prints those that verify; /verif/contracts/sweep.list is
	// the committed list that `check C01` re-verifies on every run.
	sweepCon := func(sel string) *Contract {
		c := &Contract{Sel: sel, File: "sweep", Props: []string{"C01"}, Loops: map[int]*LoopSpec{}, HasPanics: true,
			Panics: []string{"values.TypeError", "expressions.InterpreterError", "expressions.UndefinedFilter", "expressions.FilterError"}}
		// the one assumption of the sweep: a method with a pointer receiver is called on a
		// non-nil receiver (a nil receiver is a caller bug, not something a template or a binding
		// can provoke)
		if fn := w.fns[sel]; fn != nil && fn.Signature.Recv() != nil && len(fn.Params) > 0 {
			if _, isPtr := types.Unalias(fn.Params[0].Type()).Underlying().(*types.Pointer); isPtr {
				c.Requires = append(c.Requires, Clause{Label: "receiver", Text: fn.Params[0].Name() + " != nil", File: "sweep"})
			}
		}
		return c
	}
	if cmd == "sweep" {
		without, _ := w.uncontracted()
		var res []*FuncResult
		for _, sel := range without {
			if w.fns[sel] == nil || (*only != "" && !strings.Contains(sel, *only)) {
				continue
			}
			tf := time.Now()
			r := w.verifyFunc(sel, sweepCon(sel))
			fmt.Fprintf(os.Stderr, "sweep: %s: %d obligations, %d paths, %.1fs\n", sel, len(r.Obs), r.Paths, time.Since(tf).Seconds())
			res = append(res, r)
		}
		var all []*Obligation
		for _, r := range res {
			if len(r.Obs) > 400 {
				r.SpecErrors = append(r.SpecErrors, fmt.Sprintf("%d obligations: too large for the zero-annotation sweep", len(r.Obs)))
				continue
			}
			all = append(all, r.Obs...)
		}
		outDir := filepath.Join(*verif, "out", "smt", "sweep")
		os.RemoveAll(outDir)
		discharge(all, SolverCfg{Timeout: 10 * time.Second, OutDir: outDir, Parallel: 32})
		for _, r := range res {
			ok := len(r.SpecErrors) == 0 && len(r.Unsupported) == 0
			n := 0
			var bad []string
			for _, ob := range r.Obs {
				if ob.Cover {
					continue
				}
				n++
				if ob.Status != "unsat" {
					ok = false
					bad = append(bad, ob.Name)
				}
			}
			if ok {
				fmt.Printf("PROVED %s (%d obligations)\n", r.Sel, n)
			} else {
				why := strings.Join(bad, ", ")
				if len(r.Unsupported) > 0 {
					why += " unsupported: " + strings.Join(r.Unsupported, "; ")
				}
				if len(r.SpecErrors) > 0 {
					why += " spec: " + strings.Join(r.SpecErrors, "; ")
				}
				fmt.Printf("OPEN   %s (%d obligations): %s\n", r.Sel, n, why)
			}
		}
		return
	}
	if *prop == "C01" && *only == "" {
		if data, err := os.ReadFile(filepath.Join(*verif, "contracts", "sweep.list")); err == nil {
			for _, line := range strings.Split(string(data), "\n") {
				sel := strings.TrimSpace(line)
				if sel == "" || strings.HasPrefix(sel, "#") {
					continue
				}
				if w.cons[sel] != nil {
					continue // has a real contract now
				}
				if w.fns[sel] == nil {
					sweepGone = append(sweepGone, sel)
					continue
				}
				results = append(results, w.verifyFunc(sel, sweepCon(sel)))
				sweepSels[sel] = true
				sweepCount++
			}
		}
	}
	// global invariants: established by the package initialiser, written nowhere else
	if *only == "" && cmd != "sweep" {
		results = append(results, w.verifyGlobalInvs(*prop)...)
	}
	for _, l := range w.lemmas {
		if *only != "" && "lemma "+l.Name != *only {
			continue
		}
		if *prop != "" && !hasProp(l.Props, *prop) {
			continue
		}
		results = append(results, w.verifyLemma(l))
	}
	genSecs := time.Since(t0).Seconds() - loadSecs

	var obs []*Obligation
	seq := 0
	for _, r := range results {
		for _, ob := range r.Obs {
			seq++
			ob.Seq = seq
			obs = append(obs, ob)
		}
	}
	to := 10 * time.Second
	if *tier == "thorough" {
		to = 60 * time.Second
	}
	if *timeout > 0 {
		to = time.Duration(*timeout) * time.Second
	}
	outDir := filepath.Join(*verif, "out", "smt", nonEmpty(*prop, "all"))
	os.RemoveAll(outDir)
	discharge(obs, SolverCfg{Timeout: to, OutDir: outDir, Parallel: 32, KeepAll: *keep || cmd == "dump", Thorough: *tier == "thorough"})

	if cmd == "dump" {
		for _, r := range results {
			fmt.Printf("== %s: %d obligations, paths=%d returns=%d\n", r.Sel, len(r.Obs), r.Paths, r.Returns)
			for _, u := range r.Unsupported {
				fmt.Printf("   UNSUPPORTED %s\n", u)
			}
			for _, u := range r.SpecErrors {
				fmt.Printf("   SPEC-ERROR %s\n", u)
			}
			for _, a := range r.Assumptions {
				fmt.Printf("   assume: %s\n", a)
			}
			for _, ob := range r.Obs {
				fmt.Printf("   %-8s %-9s %5.2fs %s  [%s] %s\n", ob.Status, ob.Backend, ob.Seconds, ob.Name, ob.Pos, ob.File)
			}
		}
		return
	}
	sort.Strings(unverified)
	unverifiedContracts = unverified
	report(*verif, *prop, *tier, *seed, results, obs, loadSecs, genSecs, to, t0)
}

var unverifiedContracts []string

func nonEmpty(a, b string) string {
	if a != "" {
		return a
	}
	return b
}

type evidence struct {
	PropertyID  string         `json:"property_id"`
	Tier        string         `json:"tier"`
	Seed        int            `json:"seed"`
	Level       string         `json:"level"`
	Coverage    map[string]any `json:"coverage"`
	Assumptions []string       `json:"assumptions"`
	WallS       float64        `json:"wall_s"`
	Violations  int            `json:"violations"`
}

func failHard(verif, prop, tier string, seed int, why string, t0 time.Time) {
	dir := filepath.Join(verif, "replays", prop)
	os.MkdirAll(dir, 0o755)
	path := filepath.Join(dir, "load-failure.json")
	b, _ := json.MarshalIndent(map[string]any{"property": prop, "obligation": "load", "reason": why}, "", " ")
	os.WriteFile(path, b, 0o644)
	ev := evidence{PropertyID: prop, Tier: tier, Seed: seed, Level: "proof", Coverage: map[string]any{"obligations": 1, "discharged": 0, "checker_cmd": "govc check", "trusted_base": []string{}, "explanation": why,
		"evaluations": 1, "distinct_nontrivial": 0}, WallS: time.Since(t0).Seconds(), Violations: 1}
	eb, _ := json.MarshalIndent(ev, "", " ")
	os.MkdirAll(filepath.Join(verif, "evidence"), 0o755)
	os.WriteFile(filepath.Join(verif, "evidence", prop+".json"), eb, 0o644)
	fmt.Printf("VIOLATION property=%s replay=%s no-failing-input-found\n", prop, path)
	os.Exit(1)
}

var theWorld *World
var sweepGone []string
var sweepSels = map[string]bool{}
var sweepCount int

func report(verif, prop, tier string, seed int, results []*FuncResult, obs []*Obligation, loadSecs, genSecs float64, to time.Duration, t0 time.Time) {
	known := loadKnown(filepath.Join(verif, "known_findings.json"))
	isKnown := func(name string) *KnownFinding {
		for i := range known {
			k := &known[i]
			if k.Status == "known" && (k.Property == prop || prop == "") && k.Obligation == stableName(name) {
				return k
			}
		}
		return nil
	}
	byBackend := map[string]int{}
	byKind := map[string]int{}
	solverS := 0.0
	discharged, total := 0, 0
	var failing []*Obligation
	var knownLines []string
	knownSeen := map[string]bool{}
	trusted := map[string]bool{"SMT prelude: abstract string/float/value axioms (/verif/govc/prelude.go)": true,
		"go/ssa construction of /repo (golang.org/x/tools v0.29.0)": true, "SMT solvers z3 5.1.0 / z3 4.8.12 / cvc5 1.0.3": true}
	covers, vacuous, deadPaths, unrepro := 0, 0, 0, 0
	for _, ob := range obs {
		solverS += ob.Seconds
		for _, t := range ob.Trusted {
			trusted[t] = true
		}
		if ob.Cover {
			covers++
			if ob.Backend == "cover:refuted-once-not-reproduced" {
				unrepro++
			}
			if ob.Status == "vacuous" && ob.Group != "" {
				// alternatives: vacuous only when every member of the group is refuted
				all := true
				first := true
				for _, o2 := range obs {
					if o2.Cover && o2.Group == ob.Group {
						if o2.Status != "vacuous" {
							all = false
						}
						if o2 == ob {
							break
						}
						if o2.Status == "vacuous" {
							first = false
						}
					}
				}
				if !all {
					deadPaths++
					continue
				}
				if !first {
					continue // the group is reported once
				}
				for _, o2 := range obs {
					if o2.Cover && o2.Group == ob.Group && o2.Status != "vacuous" {
						all = false
					}
				}
				if !all {
					deadPaths++
					continue
				}
			}
			if ob.Status == "vacuous" {
				vacuous++
				total++
				failing = append(failing, ob)
			}
			continue
		}
		if ob.Status == "unsat" {
			total++
			discharged++
			byBackend[ob.Backend]++
			byKind[ob.Kind]++
			continue
		}
		if k := isKnown(ob.Name); k != nil {
			if !knownSeen[k.Obligation] {
				knownSeen[k.Obligation] = true
				knownLines = append(knownLines, fmt.Sprintf("KNOWN-FINDING: property=%s %s [%s]", nonEmpty(prop, k.Property), k.What, k.Obligation))
			}
			continue
		}
		total++
		byKind[ob.Kind]++
		failing = append(failing, ob)
	}
	var funcs []map[string]any
	assumptions := map[string]bool{}
	var hardErrors []string
	for _, r := range results {
		nd, no := 0, 0
		for _, ob := range r.Obs {
			if ob.Cover {
				continue
			}
			no++
			if ob.Status == "unsat" {
				nd++
			}
		}
		funcs = append(funcs, map[string]any{"function": r.Sel, "obligations": no, "discharged": nd, "paths": r.Paths})
		for _, a := range r.Assumptions {
			assumptions[a] = true
		}
		for _, u := range r.Unsupported {
			hardErrors = append(hardErrors, r.Sel+": outside the verifier's subset: "+u)
		}
		for _, u := range r.SpecErrors {
			hardErrors = append(hardErrors, r.Sel+": "+u)
		}
		if len(r.Obs) <= 1 && len(r.Unsupported) == 0 && len(r.SpecErrors) == 0 && !strings.HasPrefix(r.Sel, "lemma ") {
			hardErrors = append(hardErrors, r.Sel+": generated no obligations (vacuous contract)")
		}
		if r.Returns == 0 && len(r.Unsupported) == 0 && len(r.SpecErrors) == 0 && !strings.HasPrefix(r.Sel, "lemma ") {
			assumptions[r.Sel+": no path reaches a return (every path ends in a loop cut or panic)"] = true
		}
	}
	if len(results) == 0 {
		hardErrors = append(hardErrors, "no contract carries property "+prop)
	}
	// expected-obligation floor (vacuity guard)
	if prop != "" {
		if exp := loadExpected(filepath.Join(verif, "contracts", "expected_obligations.json")); exp != nil {
			if min, ok := exp[prop]; ok && len(obs) < min {
				hardErrors = append(hardErrors, fmt.Sprintf("only %d obligations generated, expected at least %d", len(obs), min))
			}
		}
	}
	violations := 0
	replayDir := filepath.Join(verif, "replays", nonEmpty(prop, "all"))
	os.RemoveAll(replayDir)
	var lines []string
	seenV := map[string]bool{}
	for _, ob := range failing {
		key := stableName(ob.Name)
		if seenV[key] {
			continue
		}
		seenV[key] = true
		violations++
		os.MkdirAll(replayDir, 0o755)
		path := filepath.Join(replayDir, smtName("", strings.ReplaceAll(ob.Name, "/", "__"))+".json")
		rp := map[string]any{"property": prop, "obligation": ob.Name, "kind": ob.Kind, "function": ob.Func, "position": ob.Pos, "description": ob.Descr,
			"status": ob.Status, "solver_output": ob.Output, "model": ob.Model, "smt_file": ob.File, "goal": ob.Goal.S}
		suffix := " no-failing-input-found"
		if res := tryReplay(verif, ob, rp); res {
			suffix = ""
		}
		b, _ := json.MarshalIndent(rp, "", " ")
		os.WriteFile(path, b, 0o644)
		lines = append(lines, fmt.Sprintf("VIOLATION property=%s replay=%s%s", nonEmpty(prop, "all"), path, suffix))
	}
	for i, e := range hardErrors {
		violations++
		os.MkdirAll(replayDir, 0o755)
		path := filepath.Join(replayDir, fmt.Sprintf("undecided-%d.json", i+1))
		b, _ := json.MarshalIndent(map[string]any{"property": prop, "obligation": "undecided", "reason": e}, "", " ")
		os.WriteFile(path, b, 0o644)
		lines = append(lines, fmt.Sprintf("VIOLATION property=%s replay=%s no-failing-input-found", nonEmpty(prop, "all"), path))
		total++
	}
	var samples []map[string]any
	for i, ob := range obs {
		if ob.Kind == "cover" {
			continue
		}
		if len(samples) < 6 && (i%((len(obs)/6)+1) == 0 || ob.Kind == "post") {
			g := ob.Goal.S
			if len(g) > 300 {
				g = g[:300] + "..."
			}
			samples = append(samples, map[string]any{"obligation": ob.Name, "kind": ob.Kind, "at": ob.Pos, "meaning": ob.Descr, "goal": g, "assumptions_on_path": len(ob.PC), "status": ob.Status, "backend": ob.Backend})
		}
	}
	for _, u := range unverifiedContracts {
		trusted["UNVERIFIED in-repo contract (assumed at call sites, body not yet under proof): "+u] = true
	}
	var tb []string
	for t := range trusted {
		tb = append(tb, t)
	}
	sort.Strings(tb)
	as := []string{"integers are mathematical except where an overflow obligation is generated; floats are an uninterpreted ordered sort; strings an uninterpreted sort with the prelude axioms"}
	for a := range assumptions {
		as = append(as, a)
	}
	sort.Strings(as)
	sort.Strings(knownLines)
	if knownLines == nil {
		knownLines = []string{}
	}
	cov := map[string]any{
		"obligations": total, "discharged": discharged,
		"checker_cmd":  fmt.Sprintf("govc check -prop %s -tier %s (VC generation over go/ssa; z3-new, cvc5, z3 in turn, %ds per query)", prop, tier, int(to.Seconds())),
		"trusted_base": tb, "by_backend": byBackend, "by_kind": byKind, "solver_s": round2(solverS), "load_s": round2(loadSecs), "vcgen_s": round2(genSecs),
		"vacuity_guards":           map[string]int{"checked": covers, "refuted": vacuous, "infeasible_paths_seen": deadPaths, "refuted_once_not_reproduced": unrepro},
		"functions_under_contract": funcs, "samples": samples, "known_findings": knownLines,
		"explanation": "every obligation is generated from /repo's current SSA against the //@ contracts in zz_contracts_verif.go; discharged = solver answered unsat for the negated goal",
	}
	if prop == "C01" {
		// the sweep: which hand-written functions of /repo are NOT under any contract
		without, generated := theWorld.uncontracted()
		if len(sweepSels) > 0 {
			var rest []string
			for _, n := range without {
				if !sweepSels[n] {
					rest = append(rest, n)
				}
			}
			without = rest
		}
		cov["functions_without_contract"] = without
		cov["generated_functions_outside_contracts"] = generated
		if sites := theWorld.typeinvSitesOutsideContracts(sweepSels); len(sites) > 0 {
			cov["type_invariants_assumed_at_construction_sites_outside_contracts"] = sites
			as = append(as, fmt.Sprintf("%d places construct values of a type with a non-trivial type invariant inside functions that are not under contract: there the invariant is assumed, not proved (listed in coverage)", len(sites)))
		}
		cov["zero_annotation_sweep"] = map[string]any{"functions_verified_against_the_empty_contract": sweepCount, "listed_but_no_longer_present": sweepGone,
			"meaning": "functions of /verif/contracts/sweep.list have no contract; they are verified for arbitrary well-typed arguments with no precondition, safety obligations only"}
		as = append(as, fmt.Sprintf("%d hand-written functions of /repo have neither a contract nor a place in the sweep list (listed in coverage.functions_without_contract): their panic-freedom is NOT decided; %d functions of generated files (expressions/scanner.go, expressions/y.go) are outside the contracts", len(without), len(generated)))
	}
	if bounded := loadBoundedNote(verif, prop); bounded != nil {
		cov["bounded"] = bounded
	}
	ev := evidence{PropertyID: prop, Tier: tier, Seed: seed, Level: "proof", Coverage: cov, Assumptions: as, WallS: round2(time.Since(t0).Seconds()), Violations: violations}
	if prop != "" {
		eb, _ := json.MarshalIndent(ev, "", " ")
		os.MkdirAll(filepath.Join(verif, "evidence"), 0o755)
		os.WriteFile(filepath.Join(verif, "evidence", prop+".json"), eb, 0o644)
	}
	for _, ob := range obs {
		if ob.Seconds > 3 && ob.Status == "unsat" && !ob.Cover {
			fmt.Printf("govc: slow obligation %.1fs %s (%s)\n", ob.Seconds, ob.Name, ob.Backend)
		}
	}
	for _, l := range knownLines {
		fmt.Println(l)
	}
	for _, l := range lines {
		fmt.Println(l)
	}
	fmt.Printf("govc: property=%s functions=%d obligations=%d discharged=%d known=%d violations=%d wall=%.1fs\n", prop, len(results), total, discharged, len(knownLines), violations, time.Since(t0).Seconds())
	if violations > 0 {
		os.Exit(1)
	}
}

func round2(f float64) float64 { return float64(int(f*100+0.5)) / 100 }

func loadExpected(path string) map[string]int {
	b, err := os.ReadFile(path)
	if err != nil {
		return nil
	}
	m := map[string]int{}
	if json.Unmarshal(b, &m) != nil {
		return nil
	}
	return m
}

func loadBoundedNote(verif, prop string) any {
	b, err := os.ReadFile(filepath.Join(verif, "out", "bounded", prop+".json"))
	if err != nil {
		return nil
	}
	var v any
	if json.Unmarshal(b, &v) != nil {
		return nil
	}
	return v
}

// uncontracted lists the hand-written functions of /repo that no contract selector resolves
// to (and that are not local closures of a function under contract, which are verified inline
// with it), and separately the functions of generated files.
func (w *World) uncontracted() (without, generated []string) {
	under := map[*ssa.Function]bool{}
	for sel, c := range w.cons {
		if c.External {
			continue
		}
		if fn := w.fns[sel]; fn != nil {
			under[fn] = true
		}
	}
	for _, fn := range w.allFns {
		if !w.inRepo(fn) || len(fn.Blocks) == 0 || fn.Synthetic != "" {
			continue
		}
		if under[fn] {
			continue
		}
		// a closure nested in a function under contract without a contract of its own is
		// executed inline where it is called
		inl := false
		for p := fn.Parent(); p != nil; p = p.Parent() {
			if under[p] {
				inl = true
			}
		}
		if inl {
			continue
		}
		name := shortName(fn.String())
		file := ""
		if fn.Pos().IsValid() {
			file = w.prog.Fset.Position(fn.Pos()).Filename
		} else if fn.Parent() != nil && fn.Parent().Pos().IsValid() {
			file = w.prog.Fset.Position(fn.Parent().Pos()).Filename
		}
		if strings.HasSuffix(file, "_test.go") {
			continue
		}
		isGen := strings.HasPrefix(name, "(*expressions.lexer).") || strings.HasSuffix(file, "yaccpar") ||
			(strings.Contains(name, "expressions.yy") && !strings.Contains(name, "$")) ||
			((strings.HasSuffix(file, "/expressions/y.go") || strings.HasSuffix(file, "/expressions/scanner.go")) && !strings.Contains(name, "$"))
		if isGen {
			generated = append(generated, name)
			continue
		}
		without = append(without, name)
	}
	sort.Strings(without)
	sort.Strings(generated)
	return
}

// verifyGlobalInvs turns every `globalinv pkg.v: P(self)` into (1) a postcondition of the
// package initialiser pkg.init and (2) a scan showing that no other function of /repo stores to
// the variable. Contracts then use the invariant wherever the variable is read.
func (w *World) verifyGlobalInvs(prop string) []*FuncResult {
	byPkg := map[string][]string{}
	for g := range w.globalInvs {
		i := strings.LastIndex(g, ".")
		if i < 0 {
			continue
		}
		byPkg[g[:i]] = append(byPkg[g[:i]], g)
	}
	var pkgs []string
	for p := range byPkg {
		pkgs = append(pkgs, p)
	}
	sort.Strings(pkgs)
	wordSelf := regexp.MustCompile(`\bself\b`)
	var out []*FuncResult
	for _, pk := range pkgs {
		sel := pk + ".init"
		fn := w.fns[sel]
		if fn == nil {
			out = append(out, &FuncResult{Sel: sel, SpecErrors: []string{"globalinv: package initialiser " + sel + " not found"}})
			continue
		}
		con := &Contract{Sel: sel, File: "globalinv", Loops: map[int]*LoopSpec{}, Props: []string{}}
		gs := byPkg[pk]
		sort.Strings(gs)
		props := map[string]bool{}
		for _, g := range gs {
			cl := w.globalInvs[g]
			name := g[strings.LastIndex(g, ".")+1:]
			con.Ensures = append(con.Ensures, Clause{Label: "globalinv." + name, Text: wordSelf.ReplaceAllString(cl.Text, name), File: cl.File, Line: cl.Line})
			// the invariant belongs to every property whose contracts live in that package
			for _, c := range w.cons {
				if !c.External && strings.HasPrefix(c.Sel, pk+".") || strings.HasPrefix(c.Sel, "("+pk+".") || strings.HasPrefix(c.Sel, "(*"+pk+".") {
					for _, p := range c.Props {
						props[p] = true
					}
				}
			}
		}
		for p := range props {
			con.Props = append(con.Props, p)
		}
		sort.Strings(con.Props)
		if prop != "" && !hasProp(con.Props, prop) {
			continue
		}
		w.initMode = true
		r := w.verifyFunc(sel, con)
		w.initMode = false
		// (2) no other writer
		for _, g := range gs {
			for _, f := range w.allFns {
				if !w.inRepo(f) || f == fn || len(f.Blocks) == 0 {
					continue
				}
				for _, b := range f.Blocks {
					for _, in := range b.Instrs {
						if st, ok := in.(*ssa.Store); ok {
							root, _ := rootOf(st.Addr)
							if gl, ok := root.(*ssa.Global); ok && shortName(gl.String()) == g {
								r.SpecErrors = append(r.SpecErrors, fmt.Sprintf("globalinv %s: %s also writes the variable (the invariant is only sound for variables written by the initialiser alone)", g, shortName(f.String())))
							}
						}
					}
				}
			}
		}
		out = append(out, r)
	}
	return out
}

// typeinvSitesOutsideContracts: a type invariant is proved where values of the type are built
// inside functions under contract; construction in any other function of /repo is an
// assumption, listed here.
func (w *World) typeinvSitesOutsideContracts(sweep map[string]bool) []string {
	under := map[*ssa.Function]bool{}
	for sel, c := range w.cons {
		if c.External || c.Unverified {
			continue
		}
		if fn := w.fns[sel]; fn != nil {
			under[fn] = true
		}
	}
	for sel := range sweep {
		if fn := w.fns[sel]; fn != nil {
			under[fn] = true
		}
	}
	covered := func(fn *ssa.Function) bool {
		for f := fn; f != nil; f = f.Parent() {
			if under[f] {
				return true
			}
		}
		return false
	}
	seen := map[string]bool{}
	for _, fn := range w.allFns {
		if !w.inRepo(fn) || len(fn.Blocks) == 0 || fn.Synthetic != "" || covered(fn) {
			continue
		}
		if fn.Pos().IsValid() && strings.HasSuffix(w.prog.Fset.Position(fn.Pos()).Filename, "_test.go") {
			continue
		}
		for _, b := range fn.Blocks {
			for _, in := range b.Instrs {
				var t types.Type
				switch x := in.(type) {
				case *ssa.Alloc:
					t = x.Type().(*types.Pointer).Elem()
				case *ssa.MakeInterface:
					t = x.X.Type()
				case *ssa.ChangeType:
					t = x.Type()
				}
				if t == nil {
					continue
				}
				if p, ok := types.Unalias(t).Underlying().(*types.Pointer); ok {
					t = p.Elem()
				}
				cl := w.typeInvs[typeString(t)]
				if cl == nil || strings.TrimSpace(cl.Text) == "true" {
					continue
				}
				seen[typeString(t)+" in "+shortName(fn.String())] = true
			}
		}
	}
	var out []string
	for s := range seen {
		out = append(out, s)
	}
	sort.Strings(out)
	return out
}
