package main

// Translation of contract expressions (Go expression syntax plus spec built-ins)
// into SMT terms, relative to a symbolic state.

import (
	"fmt"
	"go/ast"
	"go/constant"
	"go/parser"
	"go/token"
	"go/types"
	"os"
	"strconv"
	"strings"

	"golang.org/x/tools/go/ssa"
)

type TT struct {
	T  Term
	Ty types.Type // may be nil for raw SMT-level values
	P  *PtrV      // the expression is a pointer VALUE designating this tracked location
	L  *PtrV      // the expression is an lvalue stored at this location
}

type SpecCtx struct {
	ex       *Exec
	st       *State
	old      *State
	frame    *Frame // frame whose locals are in scope (nil: only binds)
	binds    map[string]TT
	at       *ssa.BasicBlock // program point for resolving locals
	atIdx    int
	pkg      *types.Package
	bound    map[string]string // quantifier-bound variables -> sort
	clause   *Clause
	inOld    bool
	iterKey  string // ghost key of the map iteration of the loop in scope (for visited())
	callInfo *callInfo
}

type callInfo struct {
	args   []Value
	result []Value
}

type specError struct{ msg string }

func (c *SpecCtx) failf(format string, a ...any) {
	where := ""
	if c.clause != nil {
		where = fmt.Sprintf("%s:%d: ", c.clause.File, c.clause.Line)
	}
	panic(specError{where + fmt.Sprintf(format, a...)})
}

// splitTop splits s at top-level occurrences of op (outside parentheses/brackets/strings).
func splitTop(s, op string) []string {
	var parts []string
	depth := 0
	start := 0
	inStr := byte(0)
	for i := 0; i < len(s); i++ {
		ch := s[i]
		if inStr != 0 {
			if ch == '\\' {
				i++
			} else if ch == inStr {
				inStr = 0
			}
			continue
		}
		switch ch {
		case '"', '\'', '`':
			inStr = ch
		case '(', '[', '{':
			depth++
		case ')', ']', '}':
			depth--
		default:
			if depth == 0 && strings.HasPrefix(s[i:], op) {
				// do not split "<==>" when looking for "==>"
				if op == "==>" && i > 0 && s[i-1] == '<' {
					continue
				}
				parts = append(parts, s[start:i])
				start = i + len(op)
				i += len(op) - 1
			}
		}
	}
	parts = append(parts, s[start:])
	return parts
}

// Formula translates a boolean contract clause.
// rewriteNestedImplies turns "( A ==> B )" groups into "implies(A, B)" so that the
// Go expression parser accepts them.
func rewriteNestedImplies(text string) string {
	for iter := 0; iter < 50; iter++ {
		changed := false
		depthStart := []int{}
		for i := 0; i < len(text); i++ {
			switch text[i] {
			case '(':
				depthStart = append(depthStart, i)
			case ')':
				if len(depthStart) == 0 {
					return text
				}
				st := depthStart[len(depthStart)-1]
				depthStart = depthStart[:len(depthStart)-1]
				inner := text[st+1 : i]
				// only plain parenthesised groups (not call argument lists)
				isCall := st > 0 && (text[st-1] == '_' || (text[st-1] >= 'a' && text[st-1] <= 'z') || (text[st-1] >= 'A' && text[st-1] <= 'Z') || (text[st-1] >= '0' && text[st-1] <= '9'))
				if isCall {
					// rewrite each argument separately
					argsT := splitTop(inner, ",")
					any := false
					for ai, a := range argsT {
						if ps := splitTop(a, "==>"); len(ps) > 1 {
							r := strings.TrimSpace(ps[len(ps)-1])
							for k := len(ps) - 2; k >= 0; k-- {
								r = "implies(" + strings.TrimSpace(ps[k]) + ", " + r + ")"
							}
							argsT[ai] = " " + r
							any = true
						}
					}
					if any {
						text = text[:st+1] + strings.Join(argsT, ",") + text[i:]
						changed = true
					}
				} else if ps := splitTop(inner, "==>"); len(ps) > 1 {
					r := strings.TrimSpace(ps[len(ps)-1])
					for k := len(ps) - 2; k >= 0; k-- {
						r = "implies(" + strings.TrimSpace(ps[k]) + ", " + r + ")"
					}
					text = text[:st] + r + text[i+1:]
					changed = true
				}
			}
			if changed {
				break
			}
		}
		if !changed {
			return text
		}
	}
	return text
}

func (c *SpecCtx) expandMacros(text string) string {
	for i := 0; i < 5 && strings.Contains(text, "@"); i++ {
		for name, body := range c.w().macros {
			text = strings.ReplaceAll(text, "@"+name, "("+body+")")
		}
	}
	return text
}

func (c *SpecCtx) Formula(text string) Term {
	text = rewriteNestedImplies(strings.TrimSpace(c.expandMacros(text)))
	if ps := splitTop(text, "<==>"); len(ps) == 2 {
		return eq(c.Formula(ps[0]), c.Formula(ps[1]))
	}
	if ps := splitTop(text, "==>"); len(ps) > 1 {
		r := c.Formula(ps[len(ps)-1])
		for i := len(ps) - 2; i >= 0; i-- {
			r = implies(c.Formula(ps[i]), r)
		}
		return r
	}
	t := c.Expr(text)
	if t.T.Sort != SBool {
		c.failf("clause %q is not boolean (sort %s)", text, t.T.Sort)
	}
	return t.T
}

func (c *SpecCtx) Expr(text string) TT {
	text = c.expandMacros(text)
	e, err := parser.ParseExpr(text)
	if err != nil {
		c.failf("cannot parse %q: %v", text, err)
	}
	return c.tr(e)
}

func (c *SpecCtx) w() *World { return c.ex.w }

func (c *SpecCtx) tr(e ast.Expr) TT {
	switch e := e.(type) {
	case *ast.ParenExpr:
		return c.tr(e.X)
	case *ast.BasicLit:
		switch e.Kind {
		case token.INT:
			v := constant.MakeFromLiteral(e.Value, token.INT, 0)
			if i, ok := constant.Int64Val(v); ok {
				return TT{T: intLit(i), Ty: types.Typ[types.Int]}
			}
			return TT{T: mk(SInt, v.ExactString()), Ty: types.Typ[types.Int]}
		case token.STRING:
			s, _ := strconv.Unquote(e.Value)
			return TT{T: c.ex.strLit(s), Ty: types.Typ[types.String]}
		case token.CHAR:
			s, _, _, _ := strconv.UnquoteChar(e.Value[1:len(e.Value)-1], '\'')
			return TT{T: intLit(int64(s)), Ty: types.Typ[types.Int32]}
		case token.FLOAT:
			return TT{T: c.ex.fltLit(constant.MakeFromLiteral(e.Value, token.FLOAT, 0)), Ty: types.Typ[types.Float64]}
		}
	case *ast.Ident:
		return c.ident(e.Name)
	case *ast.UnaryExpr:
		x := c.tr(e.X)
		switch e.Op {
		case token.NOT:
			return TT{T: not(x.T), Ty: types.Typ[types.Bool]}
		case token.SUB:
			if x.T.Sort == SFlt {
				return TT{T: app(SFlt, "f_neg", x.T), Ty: x.Ty}
			}
			return TT{T: app(SInt, "-", x.T), Ty: x.Ty}
		case token.AND:
			if x.L != nil {
				return TT{P: x.L, Ty: types.NewPointer(x.Ty), T: c.ptrTerm(x.L)}
			}
		}
	case *ast.StarExpr:
		x := c.tr(e.X)
		return c.deref(x)
	case *ast.BinaryExpr:
		return c.binary(e)
	case *ast.SelectorExpr:
		return c.selector(e)
	case *ast.IndexExpr:
		return c.index(e)
	case *ast.SliceExpr:
		x := c.tr(e.X)
		lo := TT{T: intLit(0)}
		if e.Low != nil {
			lo = c.tr(e.Low)
		}
		switch x.T.Sort {
		case SStr:
			hi := TT{T: app(SInt, "str_len", x.T)}
			if e.High != nil {
				hi = c.tr(e.High)
			}
			return TT{T: app(SStr, "str_sub", x.T, lo.T, hi.T), Ty: x.Ty}
		case SSlc:
			hi := TT{T: sLen(x.T)}
			if e.High != nil {
				hi = c.tr(e.High)
			}
			return TT{T: mkSlc(sBase(x.T), add(sOff(x.T), lo.T), sub(hi.T, lo.T), sub(sCap(x.T), lo.T)), Ty: x.Ty}
		}
	case *ast.CallExpr:
		return c.call(e)
	case *ast.TypeAssertExpr:
		x := c.tr(e.X)
		t := c.resolveType(e.Type)
		if types.IsInterface(t) {
			return TT{T: x.T, Ty: t}
		}
		return TT{T: c.w().unbox(t, x.T, c.ex.d), Ty: t}
	}
	c.failf("unsupported expression %s", exprString(e))
	return TT{}
}

func exprString(e ast.Expr) string {
	var b strings.Builder
	ast.Fprint(&b, token.NewFileSet(), e, nil)
	s := types.ExprString(e)
	if s != "" {
		return s
	}
	return b.String()
}

func (c *SpecCtx) ptrTerm(p *PtrV) Term {
	if p.Cell == nil && p.Global == nil && !p.IsElem && len(p.Path) == 0 {
		return p.Base
	}
	return Term{}
}

func (c *SpecCtx) deref(x TT) TT {
	if x.P != nil {
		return TT{T: c.ex.load(c.st, x.P), Ty: c.ex.pointeeType(x.P), L: x.P}
	}
	pt, ok := types.Unalias(x.Ty).Underlying().(*types.Pointer)
	if !ok {
		c.failf("dereference of non-pointer")
	}
	p := &PtrV{Base: x.T, Root: pt.Elem()}
	return TT{T: c.ex.load(c.st, p), Ty: pt.Elem()}
}

func (c *SpecCtx) ident(name string) TT {
	if os.Getenv("GOVC_DEBUG_IDENT") == name {
		defer func() { fmt.Fprintf(os.Stderr, "ident %s resolved\n", name) }()
		if v, ok := c.binds[name]; ok {
			fmt.Fprintf(os.Stderr, "  via binds: %s\n", v.T.S)
		}
		if g, ok := c.st.ghosts[name]; ok {
			fmt.Fprintf(os.Stderr, "  via ghost: %s\n", g.S)
		}
	}
	if s, ok := c.bound[name]; ok {
		return TT{T: mk(s, "q_"+name)}
	}
	if v, ok := c.binds[name]; ok {
		return v
	}
	switch name {
	case "nil":
		return TT{T: nilVal, Ty: types.Typ[types.UntypedNil]}
	case "true":
		return TT{T: tTrue, Ty: types.Typ[types.Bool]}
	case "false":
		return TT{T: tFalse, Ty: types.Typ[types.Bool]}
	case "_pos":
		// byte position of the (single) range-over-string iteration in scope
		for gname, g := range c.st.ghosts {
			if strings.HasPrefix(gname, "iter$") && g.Sort == SInt && (c.iterKey == "" || gname == c.iterKey) {
				return TT{T: g, Ty: types.Typ[types.Int]}
			}
		}
		c.failf("_pos: no string iteration in scope")
	case "alloc0":
		return TT{T: c.st.alloc0}
	case "alloc":
		return TT{T: c.st.alloc}
	}
	if g, ok := c.st.ghosts[name]; ok {
		return TT{T: g, Ty: c.ex.ghostTypes[name]}
	}
	if c.frame != nil {
		if v, ok := c.local(name); ok {
			return v
		}
	}
	// package-level constant or variable of the current package
	if c.pkg != nil {
		if obj := c.pkg.Scope().Lookup(name); obj != nil {
			return c.object(obj)
		}
	}
	if d, ok := c.w().defines[name]; ok && len(d.Params) == 0 {
		return c.applyDefine(d, nil)
	}
	// reflect.Kind names as plain identifiers
	for i, k := range kindNames {
		if k == name {
			return TT{T: intLit(int64(i)), Ty: types.Typ[types.Int]}
		}
	}
	c.failf("unknown identifier %q", name)
	return TT{}
}

func (c *SpecCtx) object(obj types.Object) TT {
	switch o := obj.(type) {
	case *types.Const:
		switch o.Val().Kind() {
		case constant.Int:
			i, _ := constant.Int64Val(o.Val())
			return TT{T: intLit(i), Ty: o.Type()}
		case constant.Bool:
			return TT{T: boolLit(constant.BoolVal(o.Val())), Ty: o.Type()}
		case constant.String:
			return TT{T: c.ex.strLit(constant.StringVal(o.Val())), Ty: o.Type()}
		case constant.Float:
			return TT{T: c.ex.fltLit(o.Val()), Ty: o.Type()}
		}
	case *types.Func:
		for _, p := range c.w().prog.AllPackages() {
			if p.Pkg == o.Pkg() {
				if f, ok := p.Members[o.Name()].(*ssa.Function); ok {
					return TT{T: c.ex.funcValue(f).T, Ty: o.Type()}
				}
			}
		}
	case *types.Var:
		// package-level variable
		for _, p := range c.w().prog.AllPackages() {
			if p.Pkg == o.Pkg() {
				if g, ok := p.Members[o.Name()].(*ssa.Global); ok {
					st := c.st
					return TT{T: c.ex.globalVal(st, g), Ty: o.Type()}
				}
			}
		}
	}
	c.failf("unsupported object %s", obj)
	return TT{}
}

// local resolves a source-level name of the frame's function at the program point.
func (c *SpecCtx) local(name string) (TT, bool) {
	fr := c.frame
	fn := fr.fn
	for i, fv := range fn.FreeVars {
		if fv.Name() == name && i < len(fr.freeVar) {
			v := fr.freeVar[i]
			// captured variables are addresses: denote the content
			if p, ok := v.(*PtrV); ok {
				return TT{T: c.ex.loadAny(c.st, p), Ty: c.ex.pointeeType(p), L: p}, true
			}
			return c.fromValue(v, fv.Type()), true
		}
	}
	// allocs (address-taken / captured variables)
	for _, b := range fn.Blocks {
		for _, in := range b.Instrs {
			if a, ok := in.(*ssa.Alloc); ok && a.Comment == name {
				v, ok := fr.env[a]
				if !ok {
					continue
				}
				p := v.(*PtrV)
				return TT{T: c.ex.loadAny(c.st, p), Ty: c.ex.pointeeType(p), L: p}, true
			}
		}
	}
	for _, p := range fn.Params {
		if p.Name() == name {
			// a parameter that is reassigned in the body lives in phis / debug refs below
			if v, ok := c.paramCurrent(fr, p); ok {
				return v, true
			}
			return c.fromValue(fr.env[p], p.Type()), true
		}
	}
	// phi at the program point
	if c.at != nil {
		for _, in := range c.at.Instrs {
			if phi, ok := in.(*ssa.Phi); ok && phi.Comment == name {
				if v, ok := fr.env[phi]; ok {
					return c.fromValue(v, phi.Type()), true
				}
			}
		}
	}
	// debug references: the closest reference to the variable that dominates the program
	// point tells its current value (a reaching-definition approximation)
	var best ssa.Value
	var bestBlock *ssa.BasicBlock
	bestIdx := -1
	for _, b := range fn.Blocks {
		if c.at != nil && !b.Dominates(c.at) {
			continue
		}
		for idx, in := range b.Instrs {
			var x ssa.Value
			if phi, isPhi := in.(*ssa.Phi); isPhi {
				// a phi named like the variable is a (merging) definition at the top of its block
				if phi.Comment != name {
					continue
				}
				x = phi
			} else {
				dr, ok := in.(*ssa.DebugRef)
				if !ok || dr.IsAddr {
					continue
				}
				id, ok := dr.Expr.(*ast.Ident)
				if !ok || id.Name != name {
					continue
				}
				if _, isVar := dr.Object().(*types.Var); !isVar {
					continue
				}
				if c.at != nil && b == c.at && c.atIdx >= 0 && idx >= c.atIdx {
					continue
				}
				x = dr.X
			}
			if _, bound := fr.env[x]; !bound {
				if _, isConst := x.(*ssa.Const); !isConst {
					continue
				}
			}
			_, xConst := x.(*ssa.Const)
			_, bestConst := best.(*ssa.Const)
			better := best == nil || (bestConst && !xConst)
			if !better && !(xConst && !bestConst) {
				if bestBlock != b && bestBlock.Dominates(b) {
					better = true
				} else if bestBlock == b && idx > bestIdx {
					better = true
				}
			}
			if better {
				best, bestBlock, bestIdx = x, b, idx
			}
		}
	}
	if _, isConst := best.(*ssa.Const); best == nil || isConst {
		// fallback: a value the variable holds at some reference anywhere in the function,
		// whose definition dominates the program point (deepest such definition)
		var fb ssa.Value
		var fbBlock *ssa.BasicBlock
		fbIdx := -1
		for _, b := range fn.Blocks {
			for _, in := range b.Instrs {
				dr, ok := in.(*ssa.DebugRef)
				if !ok || dr.IsAddr {
					continue
				}
				id, ok := dr.Expr.(*ast.Ident)
				if !ok || id.Name != name {
					continue
				}
				if _, isVar := dr.Object().(*types.Var); !isVar {
					continue
				}
				xi, ok := dr.X.(ssa.Instruction)
				if !ok {
					continue
				}
				if _, bound := fr.env[dr.X]; !bound {
					continue
				}
				db := xi.Block()
				if c.at != nil {
					if !db.Dominates(c.at) {
						continue
					}
					if db == c.at && c.atIdx >= 0 && instrIndex(xi) >= c.atIdx {
						if _, isPhi := dr.X.(*ssa.Phi); !isPhi {
							continue
						}
					}
				}
				if fb == nil || (fbBlock != db && fbBlock.Dominates(db)) || (fbBlock == db && instrIndex(xi) > fbIdx) {
					fb, fbBlock, fbIdx = dr.X, db, instrIndex(xi)
				}
			}
		}
		if fb != nil {
			best = fb
		}
	}
	if best != nil {
		if cv, ok := best.(*ssa.Const); ok {
			return c.fromValue(c.ex.constVal(cv), cv.Type()), true
		}
		return c.fromValue(fr.env[best], best.Type()), true
	}
	return TT{}, false
}

func instrIndex(in ssa.Instruction) int {
	for i, x := range in.Block().Instrs {
		if x == in {
			return i
		}
	}
	return -1
}

// loadAny loads from an lvalue, returning closures / pointers held in cells as terms when possible.
func (ex *Exec) loadAny(st *State, p *PtrV) Term {
	if p.Cell != nil && len(p.Path) == 0 {
		c := st.frames[p.CellFr].cells[p.Cell]
		switch x := c.(type) {
		case *ClosureV:
			return x.T
		case *PtrV:
			if t := (&SpecCtx{}).ptrTerm(x); !t.IsZero() {
				return t
			}
			if x.Cell == nil && x.Global == nil && !x.IsElem && len(x.Path) == 1 {
				return ex.fieldAddrTerm(x.Base, x.Root, x.Path[0])
			}
			return Term{S: "?ptr", Sort: SInt}
		}
	}
	return ex.load(st, p)
}

func (c *SpecCtx) fromValue(v Value, ty types.Type) TT {
	switch x := v.(type) {
	case Term:
		return TT{T: x, Ty: ty}
	case *PtrV:
		return TT{T: c.ptrTerm(x), Ty: ty, P: x}
	case *ClosureV:
		return TT{T: x.T, Ty: ty}
	case TupleV:
		c.failf("tuple value in contract expression")
	}
	c.failf("value not usable in contract expression (%T)", v)
	return TT{}
}

func (c *SpecCtx) binary(e *ast.BinaryExpr) TT {
	if e.Op == token.LAND || e.Op == token.LOR {
		x, y := c.tr(e.X), c.tr(e.Y)
		if e.Op == token.LAND {
			return TT{T: and(x.T, y.T), Ty: types.Typ[types.Bool]}
		}
		return TT{T: or(x.T, y.T), Ty: types.Typ[types.Bool]}
	}
	x, y := c.tr(e.X), c.tr(e.Y)
	// tracked (interior / cell) pointers compared with nil
	if (e.Op == token.EQL || e.Op == token.NEQ) && (x.T.IsZero() && x.P != nil || y.T.IsZero() && y.P != nil) {
		p, other := x.P, y
		if x.P == nil || !x.T.IsZero() {
			p, other = y.P, x
		}
		if other.T.S != "nil_val" && other.T.S != "0" {
			c.failf("tracked pointer compared with a non-nil value in %s", exprString(e))
		}
		nonnil := tTrue
		if p.Cell == nil && p.Global == nil && !p.IsElem {
			nonnil = not(eq(p.Base, intLit(0)))
		}
		if e.Op == token.EQL {
			return TT{T: not(nonnil), Ty: types.Typ[types.Bool]}
		}
		return TT{T: nonnil, Ty: types.Typ[types.Bool]}
	}
	// nil adapts to the other operand's sort
	x, y = c.coerceNil(x, y), c.coerceNil(y, x)
	// untyped int literal against float
	if x.T.Sort == SFlt && y.T.Sort == SInt {
		y = TT{T: app(SFlt, "i2f", y.T), Ty: x.Ty}
	}
	if y.T.Sort == SFlt && x.T.Sort == SInt {
		x = TT{T: app(SFlt, "i2f", x.T), Ty: y.Ty}
	}
	// boxing of a concrete literal compared against an interface value
	if x.T.Sort == SVal && y.T.Sort != SVal && y.Ty != nil {
		y = TT{T: c.w().box(defaultType(y.Ty), y.T, c.ex.d), Ty: x.Ty}
	}
	if y.T.Sort == SVal && x.T.Sort != SVal && x.Ty != nil {
		x = TT{T: c.w().box(defaultType(x.Ty), x.T, c.ex.d), Ty: y.Ty}
	}
	boolT := types.Typ[types.Bool]
	switch e.Op {
	case token.EQL:
		if x.T.Sort == SFlt {
			return TT{T: app(SBool, "f_eq", x.T, y.T), Ty: boolT}
		}
		if x.T.Sort != y.T.Sort {
			c.failf("== between sorts %s and %s in %s", x.T.Sort, y.T.Sort, exprString(e))
		}
		return TT{T: eq(x.T, y.T), Ty: boolT}
	case token.NEQ:
		if x.T.Sort == SFlt {
			return TT{T: not(app(SBool, "f_eq", x.T, y.T)), Ty: boolT}
		}
		if x.T.Sort != y.T.Sort {
			c.failf("!= between sorts %s and %s in %s", x.T.Sort, y.T.Sort, exprString(e))
		}
		return TT{T: not(eq(x.T, y.T)), Ty: boolT}
	}
	switch x.T.Sort {
	case SInt:
		switch e.Op {
		case token.ADD:
			return TT{T: add(x.T, y.T), Ty: x.Ty}
		case token.SUB:
			return TT{T: sub(x.T, y.T), Ty: x.Ty}
		case token.MUL:
			return TT{T: mul(x.T, y.T), Ty: x.Ty}
		case token.QUO:
			return TT{T: app(SInt, "tdiv", x.T, y.T), Ty: x.Ty}
		case token.REM:
			return TT{T: app(SInt, "tmod", x.T, y.T), Ty: x.Ty}
		case token.LSS:
			return TT{T: lt(x.T, y.T), Ty: boolT}
		case token.LEQ:
			return TT{T: le(x.T, y.T), Ty: boolT}
		case token.GTR:
			return TT{T: gt(x.T, y.T), Ty: boolT}
		case token.GEQ:
			return TT{T: ge(x.T, y.T), Ty: boolT}
		}
	case SStr:
		switch e.Op {
		case token.ADD:
			return TT{T: app(SStr, "str_cat", x.T, y.T), Ty: x.Ty}
		case token.LSS:
			return TT{T: app(SBool, "str_lt", x.T, y.T), Ty: boolT}
		case token.GTR:
			return TT{T: app(SBool, "str_lt", y.T, x.T), Ty: boolT}
		}
	case SFlt:
		switch e.Op {
		case token.ADD:
			return TT{T: app(SFlt, "f_add", x.T, y.T), Ty: x.Ty}
		case token.SUB:
			return TT{T: app(SFlt, "f_sub", x.T, y.T), Ty: x.Ty}
		case token.MUL:
			return TT{T: app(SFlt, "f_mul", x.T, y.T), Ty: x.Ty}
		case token.QUO:
			return TT{T: app(SFlt, "f_div", x.T, y.T), Ty: x.Ty}
		case token.LSS:
			return TT{T: app(SBool, "f_lt", x.T, y.T), Ty: boolT}
		case token.GTR:
			return TT{T: app(SBool, "f_lt", y.T, x.T), Ty: boolT}
		}
	}
	c.failf("unsupported operator %s on sort %s in %s", e.Op, x.T.Sort, exprString(e))
	return TT{}
}

func defaultType(t types.Type) types.Type {
	if b, ok := t.(*types.Basic); ok {
		switch b.Kind() {
		case types.UntypedInt:
			return types.Typ[types.Int]
		case types.UntypedBool:
			return types.Typ[types.Bool]
		case types.UntypedString:
			return types.Typ[types.String]
		case types.UntypedFloat:
			return types.Typ[types.Float64]
		case types.UntypedRune:
			return types.Typ[types.Int32]
		}
	}
	return t
}

func (c *SpecCtx) coerceNil(x, other TT) TT {
	if x.T.S != "nil_val" || x.Ty != types.Typ[types.UntypedNil] {
		return x
	}
	switch other.T.Sort {
	case SInt:
		return TT{T: intLit(0), Ty: other.Ty}
	case SSlc:
		return TT{T: nilSlc, Ty: other.Ty}
	case "Fn":
		return TT{T: mk("Fn", "fn_nil"), Ty: other.Ty}
	}
	return x
}

func (c *SpecCtx) selector(e *ast.SelectorExpr) TT {
	// package-qualified name
	if id, ok := e.X.(*ast.Ident); ok {
		if _, isLocal := c.binds[id.Name]; !isLocal && c.bound[id.Name] == "" {
			if pkg := c.findPackage(id.Name); pkg != nil {
				if _, isLoc := c.tryIdent(id.Name); !isLoc {
					if obj := pkg.Scope().Lookup(e.Sel.Name); obj != nil {
						return c.object(obj)
					}
					c.failf("unknown %s.%s", id.Name, e.Sel.Name)
				}
			}
		}
	}
	x := c.tr(e.X)
	return c.field(x, e.Sel.Name)
}

func (c *SpecCtx) tryIdent(name string) (tt TT, ok bool) {
	defer func() {
		if r := recover(); r != nil {
			if _, is := r.(specError); is {
				ok = false
				return
			}
			panic(r)
		}
	}()
	return c.ident(name), true
}

func (c *SpecCtx) findPackage(name string) *types.Package {
	for _, p := range c.w().prog.AllPackages() {
		if p.Pkg.Name() == name && strings.HasPrefix(p.Pkg.Path(), modPath) {
			return p.Pkg
		}
	}
	for _, p := range c.w().prog.AllPackages() {
		if p.Pkg.Name() == name && (strings.HasPrefix(p.Pkg.Path(), modPath) || !strings.Contains(p.Pkg.Path(), "/") || p.Pkg.Path() == "gopkg.in/yaml.v2" || strings.HasSuffix(p.Pkg.Path(), "/"+name)) {
			if strings.Contains(p.Pkg.Path(), "internal") || strings.Contains(p.Pkg.Path(), "vendor") {
				continue
			}
			return p.Pkg
		}
	}
	return nil
}

func (c *SpecCtx) field(x TT, name string) TT {
	if x.Ty == nil {
		c.failf("field %s of untyped value", name)
	}
	t := types.Unalias(x.Ty)
	// auto-deref
	if pt, ok := t.Underlying().(*types.Pointer); ok {
		obj, path, _ := types.LookupFieldOrMethod(pt.Elem(), true, nil, name)
		if obj == nil {
			if c.pkg != nil {
				obj, path, _ = types.LookupFieldOrMethod(pt.Elem(), true, c.pkg, name)
			}
			if obj == nil {
				obj, path = lookupFieldAnyPkg(pt.Elem(), name)
			}
		}
		if v, ok := obj.(*types.Var); ok && v.IsField() {
			var p *PtrV
			if x.P != nil {
				p = &PtrV{}
				*p = *x.P
				p.Path = append(append([]int(nil), x.P.Path...), path...)
			} else {
				p = &PtrV{Base: x.T, Root: pt.Elem(), Path: path}
			}
			return TT{T: c.ex.load(c.st, p), Ty: v.Type(), L: p}
		}
		c.failf("no field %s in %s", name, pt.Elem())
	}
	if _, ok := t.Underlying().(*types.Struct); ok {
		obj, path := lookupFieldAnyPkg(t, name)
		if v, ok := obj.(*types.Var); ok && v.IsField() {
			if x.L != nil {
				p := &PtrV{}
				*p = *x.L
				p.Path = append(append([]int(nil), x.L.Path...), path...)
				return TT{T: c.ex.load(c.st, p), Ty: v.Type(), L: p}
			}
			tm, ty := c.ex.loadPath(x.T, t, path)
			return TT{T: tm, Ty: ty}
		}
	}
	c.failf("no field %s in %s", name, x.Ty)
	return TT{}
}

func lookupFieldAnyPkg(t types.Type, name string) (types.Object, []int) {
	// breadth-first over embedded fields, ignoring export rules
	type item struct {
		t    types.Type
		path []int
	}
	queue := []item{{t, nil}}
	for depth := 0; depth < 6 && len(queue) > 0; depth++ {
		var next []item
		for _, it := range queue {
			tt := types.Unalias(it.t)
			if p, ok := tt.Underlying().(*types.Pointer); ok {
				tt = p.Elem()
			}
			st, ok := types.Unalias(tt).Underlying().(*types.Struct)
			if !ok {
				continue
			}
			for i := 0; i < st.NumFields(); i++ {
				f := st.Field(i)
				p := append(append([]int(nil), it.path...), i)
				if f.Name() == name {
					return f, p
				}
				if f.Embedded() {
					next = append(next, item{f.Type(), p})
				}
			}
		}
		queue = next
	}
	return nil, nil
}

func (c *SpecCtx) index(e *ast.IndexExpr) TT {
	x := c.tr(e.X)
	i := c.tr(e.Index)
	if x.Ty != nil {
		switch t := types.Unalias(x.Ty).Underlying().(type) {
		case *types.Slice:
			es := c.w().sortOf(t.Elem(), c.ex.d)
			p := &PtrV{IsElem: true, Slc: x.T, Idx: i.T, Root: t.Elem()}
			return TT{T: c.ex.slcElem(c.st, x.T, i.T, es), Ty: t.Elem(), L: p}
		case *types.Map:
			if i.T.Sort != c.w().sortOf(t.Key(), c.ex.d) && i.Ty != nil {
				i = TT{T: c.w().box(defaultType(i.Ty), i.T, c.ex.d)}
			}
			return TT{T: c.ex.mapGet(c.st, t, x.T, i.T), Ty: t.Elem()}
		case *types.Basic:
			return TT{T: app(SInt, "str_at", x.T, i.T), Ty: types.Typ[types.Uint8]}
		case *types.Array:
			return TT{T: sel(x.T, i.T, c.w().sortOf(t.Elem(), c.ex.d)), Ty: t.Elem()}
		}
	}
	if _, v, ok := arrayParts(x.T.Sort); ok {
		return TT{T: sel(x.T, i.T, v)}
	}
	if x.T.Sort == SStr {
		return TT{T: app(SInt, "str_at", x.T, i.T)}
	}
	c.failf("cannot index %s (sort %s)", exprString(e.X), x.T.Sort)
	return TT{}
}

func (c *SpecCtx) resolveType(e ast.Expr) types.Type {
	switch e := e.(type) {
	case *ast.Ident:
		if t := types.Universe.Lookup(e.Name); t != nil {
			if tn, ok := t.(*types.TypeName); ok {
				return tn.Type()
			}
		}
		if c.pkg != nil {
			if tn, ok := c.pkg.Scope().Lookup(e.Name).(*types.TypeName); ok {
				return tn.Type()
			}
		}
	case *ast.SelectorExpr:
		if id, ok := e.X.(*ast.Ident); ok {
			if pkg := c.findPackage(id.Name); pkg != nil {
				if tn, ok := pkg.Scope().Lookup(e.Sel.Name).(*types.TypeName); ok {
					return tn.Type()
				}
			}
		}
	case *ast.StarExpr:
		return types.NewPointer(c.resolveType(e.X))
	case *ast.ArrayType:
		if e.Len == nil {
			return types.NewSlice(c.resolveType(e.Elt))
		}
	case *ast.MapType:
		return types.NewMap(c.resolveType(e.Key), c.resolveType(e.Value))
	case *ast.InterfaceType:
		return types.NewInterfaceType(nil, nil)
	case *ast.ParenExpr:
		return c.resolveType(e.X)
	}
	c.failf("cannot resolve type %s", exprString(e))
	return nil
}

// lookupType resolves "pkg.Name" / "*pkg.Name" / builtin names to a type.
func (w *World) lookupType(name string) types.Type {
	name = strings.TrimSpace(name)
	if strings.HasPrefix(name, "*") {
		if t := w.lookupType(name[1:]); t != nil {
			return types.NewPointer(t)
		}
		return nil
	}
	if strings.HasPrefix(name, "[]") {
		if t := w.lookupType(name[2:]); t != nil {
			return types.NewSlice(t)
		}
		return nil
	}
	if name == "any" {
		return types.NewInterfaceType(nil, nil)
	}
	if tn, ok := types.Universe.Lookup(name).(*types.TypeName); ok {
		return tn.Type()
	}
	i := strings.LastIndex(name, ".")
	if i < 0 {
		return nil
	}
	pkgName, tname := name[:i], name[i+1:]
	for _, p := range w.prog.AllPackages() {
		if p.Pkg.Name() == pkgName || shortName(p.Pkg.Path()) == pkgName {
			if tn, ok := p.Pkg.Scope().Lookup(tname).(*types.TypeName); ok {
				return tn.Type()
			}
		}
	}
	return nil
}

// paramCurrent finds the current value of a reassigned parameter at the program point:
// a phi named like the parameter in a block that dominates the point.
func (c *SpecCtx) paramCurrent(fr *Frame, p *ssa.Parameter) (TT, bool) {
	if c.at == nil {
		return TT{}, false
	}
	var best *ssa.Phi
	for _, b := range fr.fn.Blocks {
		if !b.Dominates(c.at) {
			continue
		}
		for _, in := range b.Instrs {
			phi, ok := in.(*ssa.Phi)
			if !ok || phi.Comment != p.Name() {
				continue
			}
			if _, bound := fr.env[phi]; !bound {
				continue
			}
			if best == nil || best.Block().Dominates(b) {
				best = phi
			}
		}
	}
	if best == nil {
		return TT{}, false
	}
	return c.fromValue(fr.env[best], best.Type()), true
}
