package main

import (
	"fmt"
	"go/types"
	"os"
	"sort"
	"strings"

	"golang.org/x/tools/go/ssa"
)

func (ex *Exec) loopCtx(st *State, fr *Frame, l *Loop) *SpecCtx {
	c := ex.ctxAt(st, fr, l.header, 0)
	for _, in := range l.header.Instrs {
		if nx, ok := in.(*ssa.Next); ok {
			if rg, ok := nx.Iter.(*ssa.Range); ok {
				c.iterKey = "iter$" + rg.Name() + "$" + shortName(rg.Parent().String())
			}
		}
	}
	// expose range-loop counters: _i = number of completed iterations of this loop
	for _, ll := range ex.loops(fr.fn).loops {
		for _, in := range ll.header.Instrs {
			phi, ok := in.(*ssa.Phi)
			if !ok || phi.Comment != "rangeindex" {
				continue
			}
			v, ok := fr.env[phi].(Term)
			if !ok {
				continue
			}
			tt := TT{T: add(v, intLit(1)), Ty: types.Typ[types.Int]}
			c.binds[fmt.Sprintf("_i%d", ll.ordinal)] = tt
			if ll == l {
				c.binds["_i"] = tt
			}
			// _r: the slice being ranged over
			if x := rangedValue(phi); x != nil {
				if xv, ok := fr.env[x].(Term); ok {
					rt := TT{T: xv, Ty: x.Type()}
					c.binds[fmt.Sprintf("_r%d", ll.ordinal)] = rt
					if ll == l {
						c.binds["_r"] = rt
					}
				}
			}
		}
	}
	return c
}

func (ex *Exec) checkInvariants(st *State, fn *ssa.Function, l *Loop, kind string) {
	ls := ex.loopSpec(fn, l)
	if ls == nil {
		return
	}
	fr := st.top()
	for i := range ls.Invariants {
		inv := &ls.Invariants[i]
		c := ex.loopCtx(st, fr, l)
		c.clause = inv
		g := ex.safeFormula(c, inv.Text)
		lbl := inv.Label
		if lbl == "" {
			lbl = fmt.Sprintf("loop%d.%d", l.ordinal, i+1)
		} else {
			lbl = fmt.Sprintf("loop%d.%s", l.ordinal, lbl)
		}
		ex.oblige(st, kind, lbl, l.header.Instrs[0], g, "loop invariant: "+inv.Text)
	}
}

func (ex *Exec) assumeInvariants(st *State, fn *ssa.Function, l *Loop) {
	fr := st.top()
	// structural facts of go/ssa's range lowering
	for _, in := range l.header.Instrs {
		phi, ok := in.(*ssa.Phi)
		if !ok || phi.Comment != "rangeindex" {
			continue
		}
		if v, ok := fr.env[phi].(Term); ok {
			st.assume(ge(v, intLit(-1)))
			if n := ex.rangeLen(st, fr, l, phi); !n.IsZero() {
				st.assume(or(eq(v, intLit(-1)), lt(v, n)))
			}
			ex.d.trust("range-loop index stays within [-1, len) by construction of go/ssa's lowering")
		}
	}
	for _, in := range l.header.Instrs {
		if phi, ok := in.(*ssa.Phi); ok && phi.Comment == "rangeint.iter" {
			if v, ok := fr.env[phi].(Term); ok {
				st.assume(ge(v, intLit(0)))
				if n := ex.rangeLen(st, fr, l, phi); !n.IsZero() {
					st.assume(lt(v, n)) // bottom-tested loop: entered only when 0 < n, repeated only when i+1 < n
				}
				ex.d.trust("range-over-int counter stays within [0, n) by construction of go/ssa's lowering")
			}
		}
	}
	ls := ex.loopSpec(fn, l)
	if ls == nil {
		return
	}
	for i := range ls.Invariants {
		inv := &ls.Invariants[i]
		c := ex.loopCtx(st, fr, l)
		c.clause = inv
		st.assume(ex.safeFormula(c, inv.Text))
	}
}

// rangeLen finds the length operand the range loop compares its index with.
func (ex *Exec) rangeLen(st *State, fr *Frame, l *Loop, phi *ssa.Phi) Term {
	// pattern: t3 = phi + 1; t4 = t3 < tLen; if t4 ...
	refs := phi.Referrers()
	if refs == nil {
		return Term{}
	}
	for _, r := range *refs {
		bo, ok := r.(*ssa.BinOp)
		if !ok {
			continue
		}
		rr := bo.Referrers()
		if rr == nil {
			continue
		}
		for _, u := range *rr {
			if cmp, ok := u.(*ssa.BinOp); ok && cmp.X == bo {
				if v, ok := fr.env[cmp.Y]; ok {
					if t, ok := v.(Term); ok {
						return t
					}
				}
				if cv, ok := cmp.Y.(*ssa.Const); ok {
					if t, ok := ex.constVal(cv).(Term); ok {
						return t
					}
				}
			}
		}
	}
	return Term{}
}

func (ex *Exec) loopMeasure(st *State, fn *ssa.Function, l *Loop) Term {
	ls := ex.loopSpec(fn, l)
	fr := st.top()
	c := ex.loopCtx(st, fr, l)
	c.clause = ls.Decreases
	return ex.safeExpr(c, ls.Decreases.Text).T
}

// havocLoop forgets everything the loop body may change.
func (ex *Exec) havocLoop(st *State, fr *Frame, l *Loop) {
	// loop-carried SSA values
	for _, in := range l.header.Instrs {
		phi, ok := in.(*ssa.Phi)
		if !ok {
			continue
		}
		cur := fr.env[phi]
		switch cur.(type) {
		case Term:
			fr.env[phi] = ex.freshOfType(st, "phi_"+phi.Comment, phi.Type())
		default:
			// pointer/closure-valued phi: only sound to keep when every edge agrees
			same := true
			for _, e := range phi.Edges {
				if ev, ok := fr.env[e]; ok && ev != cur {
					same = false
				}
			}
			if !same {
				ex.unsupportedf("loop-carried tracked pointer %s", phi.Name())
			}
		}
	}
	mods := map[string]bool{}
	cells := map[*ssa.Alloc]bool{}
	ghosts := map[string]bool{}
	ex.bodyEffects(fr.fn, l, fr, mods, cells, ghosts, 0)
	ex.lastLoopMods, ex.lastLoopCells, ex.lastLoopGhosts = mods, cells, ghosts
	if dbg := os.Getenv("GOVC_DEBUG_MODS"); dbg != "" && strings.Contains(ex.sel, dbg) {
		fmt.Fprintf(os.Stderr, "loop mods of %s: %v\n", ex.sel, modNames(mods))
	}
	if mods["*"] {
		ex.havocAll(st)
	} else {
		names := make([]string, 0, len(mods))
		for n := range mods {
			names = append(names, n)
		}
		sort.Strings(names)
		for _, n := range names {
			if strings.HasPrefix(n, "G!") {
				delete(st.globals, strings.TrimPrefix(n, "G!"))
				continue
			}
			ex.havocHeap(st, n, !mods[n])
		}
		if len(names) > 0 {
			ex.bumpAlloc(st)
		}
	}
	for a := range cells {
		for fi := len(st.frames) - 1; fi >= 0; fi-- {
			f := st.frames[fi]
			if cur, ok := f.cells[a]; ok {
				et := a.Type().(*types.Pointer).Elem()
				if _, isT := cur.(Term); !isT {
					if pt, isPtr := types.Unalias(et).Underlying().(*types.Pointer); isPtr {
						// a loop-carried tracked pointer becomes a pointer of unknown origin
						b := ex.fresh("lptr_"+a.Comment, SInt)
						st.assume(and(ge(b, intLit(0)), lt(b, st.alloc)))
						np := &PtrV{Base: b, Root: pt.Elem()}
						if !ex.isModelStruct(pt.Elem()) {
							np.Opaque = true
						}
						f.cells[a] = np
						break
					}
					ex.unsupportedf("loop modifies cell %s holding a tracked closure", a.Comment)
				}
				f.cells[a] = ex.freshOfType(st, "cell_"+a.Comment, et)
				break
			}
		}
	}
	gn := make([]string, 0, len(ghosts))
	for g := range ghosts {
		gn = append(gn, g)
	}
	sort.Strings(gn)
	for _, g := range gn {
		if cur, ok := st.ghosts[g]; ok {
			st.ghosts[g] = ex.fresh("ghost_"+g, cur.Sort)
		}
	}
}

// bodyEffects collects heaps, cells and ghosts written by the loop body
// (including local closures it calls).
func (ex *Exec) bodyEffects(fn *ssa.Function, l *Loop, fr *Frame, mods map[string]bool, cells map[*ssa.Alloc]bool, ghosts map[string]bool, depth int) {
	con := ex.contractOf(fn)
	scan := func(b *ssa.BasicBlock) {
		for _, in := range b.Instrs {
			ex.w.instrModsIn(in, mods, func(b *ssa.BasicBlock) bool { return l.body[b] })
			switch in := in.(type) {
			case *ssa.Store:
				root, _ := rootOf(in.Addr)
				if a, ok := root.(*ssa.Alloc); ok {
					cells[a] = true
				}
				if fv, ok := root.(*ssa.FreeVar); ok {
					ex.freeVarCell(fr, fn, fv, cells)
				}
			case *ssa.Next:
				if rg, ok := in.Iter.(*ssa.Range); ok {
					ghosts["iter$"+rg.Name()+"$"+shortName(rg.Parent().String())] = true
				}
			case *ssa.Range:
				ghosts["iter$"+in.Name()+"$"+shortName(in.Parent().String())] = true
			case ssa.CallInstruction:
				c := in.Common()
				if con != nil {
					name := calleeName(c)
					if bi, ok := c.Value.(*ssa.Builtin); ok {
						name = bi.Name()
					}
					for _, a := range con.Ats {
						if a.Callee == name && a.Ghost != "" {
							g := a.Ghost
							if i := strings.Index(g, "["); i > 0 {
								g = g[:i]
							}
							ghosts[g] = true
						}
					}
				}
				if _, ok := c.Value.(*ssa.Builtin); ok {
					continue
				}
				// external callee taking the address of a cell (e.g. (*bytes.Buffer).Write(&x.buf))
				for _, a := range c.Args {
					root, _ := rootOf(a)
					if al, ok := root.(*ssa.Alloc); ok {
						cells[al] = true
					}
				}
				if con != nil {
					name := calleeName(c)
					for _, a := range con.Ats {
						if a.Callee == name && a.Ghost != "" {
							g := a.Ghost
							if i := strings.Index(g, "["); i > 0 {
								g = g[:i]
							}
							ghosts[g] = true
						}
					}
				}
				// local closures executed by inlining
				var callee *ssa.Function
				var mc *ssa.MakeClosure
				if m, ok := c.Value.(*ssa.MakeClosure); ok {
					mc = m
					callee = m.Fn.(*ssa.Function)
				} else if sc := c.StaticCallee(); sc != nil && ex.w.cons[shortName(sc.String())] == nil && len(sc.Blocks) > 0 && depth < 3 && (sc.Parent() != nil || ex.w.inRepo(sc)) {
					callee = sc
				}
				if callee != nil && (mc != nil || ex.w.cons[shortName(callee.String())] == nil) && depth < 3 {
					sub := &Loop{body: map[*ssa.BasicBlock]bool{}}
					for _, cb := range callee.Blocks {
						sub.body[cb] = true
					}
					var subFr *Frame
					if mc != nil {
						subFr = &Frame{fn: callee}
						for _, bnd := range mc.Bindings {
							if a, ok := bnd.(*ssa.Alloc); ok {
								subFr.freeVar = append(subFr.freeVar, &PtrV{Cell: a})
							} else {
								subFr.freeVar = append(subFr.freeVar, nil)
							}
						}
					}
					ex.bodyEffects(callee, sub, subFr, mods, cells, ghosts, depth+1)
				}
				for n, wr := range ex.w.callMods(c) {
					if n == "*" && os.Getenv("GOVC_DEBUG_MODS") != "" && strings.Contains(ex.sel, os.Getenv("GOVC_DEBUG_MODS")) {
						fmt.Fprintf(os.Stderr, "  * from call %s in %s\n", c.String(), shortName(fn.String()))
					}
					addMod(mods, n, wr)
				}
			}
		}
	}
	var blocks []*ssa.BasicBlock
	for b := range l.body {
		blocks = append(blocks, b)
	}
	sort.Slice(blocks, func(i, j int) bool { return blocks[i].Index < blocks[j].Index })
	for _, b := range blocks {
		scan(b)
	}
}

func (ex *Exec) freeVarCell(fr *Frame, fn *ssa.Function, fv *ssa.FreeVar, cells map[*ssa.Alloc]bool) {
	if fr == nil {
		return
	}
	for i, f := range fn.FreeVars {
		if f == fv && i < len(fr.freeVar) {
			if p, ok := fr.freeVar[i].(*PtrV); ok && p != nil && p.Cell != nil {
				cells[p.Cell] = true
			}
		}
	}
}

// rangedValue finds the operand X of the `len(X)` that bounds a range loop's index.
func rangedValue(phi *ssa.Phi) ssa.Value {
	refs := phi.Referrers()
	if refs == nil {
		return nil
	}
	for _, r := range *refs {
		bo, ok := r.(*ssa.BinOp)
		if !ok {
			continue
		}
		rr := bo.Referrers()
		if rr == nil {
			continue
		}
		for _, u := range *rr {
			if cmp, ok := u.(*ssa.BinOp); ok && cmp.X == bo {
				if call, ok := cmp.Y.(*ssa.Call); ok {
					if b, ok := call.Call.Value.(*ssa.Builtin); ok && b.Name() == "len" && len(call.Call.Args) == 1 {
						return call.Call.Args[0]
					}
				}
			}
		}
	}
	return nil
}

// recordLoopHead remembers the state right after the loop-head havoc, so that the back edge can
// check that the body changed nothing outside the inferred write set (the inference is then
// an obligation, not an assumption).
func (ex *Exec) recordLoopHead(st *State, fr *Frame, ent *loopEntry) {
	ent.headHeaps = map[string]Term{}
	for n, t := range st.heaps {
		ent.headHeaps[n] = t
	}
	ent.headCells = map[*ssa.Alloc]string{}
	for _, f := range st.frames {
		for a, v := range f.cells {
			if t, ok := v.(Term); ok {
				ent.headCells[a] = t.S
			}
		}
	}
	ent.headGhost = map[string]string{}
	for n, g := range st.ghosts {
		ent.headGhost[n] = g.S
	}
	ent.headAlloc = st.alloc
	ent.mods, ent.modCells, ent.modGhosts = ex.lastLoopMods, ex.lastLoopCells, ex.lastLoopGhosts
}

// checkLoopWrites runs at a back edge: every heap, cell or ghost whose symbolic value differs
// from the loop-head value must be in the write set the havoc used.
func (ex *Exec) checkLoopWrites(st *State, site ssa.Instruction, ent *loopEntry) {
	if ent == nil || ent.headHeaps == nil || ent.mods == nil || ent.mods["*"] {
		return
	}
	names := make([]string, 0, len(st.heaps))
	for n := range st.heaps {
		names = append(names, n)
	}
	sort.Strings(names)
	for _, n := range names {
		cur := st.heaps[n]
		head, had := ent.headHeaps[n]
		if had && head.S == cur.S {
			continue
		}
		wr, listed := ent.mods[n]
		if listed && wr {
			continue
		}
		if !had {
			// heap first touched inside the body: compare with its untouched version
			srt := st.hsorts[n]
			head = ex.heapConst(n, srt, st.epoch, st.hver[n])
			if head.S == cur.S {
				continue
			}
		}
		ks, _, ok := arrayParts(cur.Sort)
		if !ok || ks != SInt {
			if !listed {
				ex.oblige(st, "havoc", "loop-writes."+n, site, tFalse, "the loop body changes "+n+", which the inferred write set of the loop does not contain")
			}
			continue
		}
		// not listed, or listed as allocation-only: objects that existed at the loop head are unchanged
		goal := mk(SBool, fmt.Sprintf("(forall ((r Int)) (! (=> (< r %s) (= (select %s r) (select %s r))) :pattern ((select %s r))))", ent.headAlloc.S, cur.S, head.S, cur.S))
		ex.oblige(st, "havoc", "loop-writes."+n, site, goal, "the loop body may only allocate in "+n+" (inferred write set): objects existing at the loop head are unchanged")
	}
	for _, f := range st.frames {
		for a, v := range f.cells {
			t, ok := v.(Term)
			if !ok {
				continue
			}
			if h, had := ent.headCells[a]; had && h != t.S && !ent.modCells[a] {
				ex.oblige(st, "havoc", "loop-writes.cell."+a.Comment, site, tFalse, "the loop body changes local "+a.Comment+", which the inferred write set of the loop does not contain")
			}
		}
	}
	gn := make([]string, 0, len(st.ghosts))
	for n := range st.ghosts {
		gn = append(gn, n)
	}
	sort.Strings(gn)
	for _, n := range gn {
		if h, had := ent.headGhost[n]; had && h != st.ghosts[n].S && !ent.modGhosts[n] && !strings.HasPrefix(n, "iter$") {
			ex.oblige(st, "havoc", "loop-writes.ghost."+n, site, tFalse, "the loop body changes ghost "+n+", which the inferred write set of the loop does not contain")
		}
	}
}
