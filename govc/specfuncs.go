package main

import (
	"fmt"
	"go/ast"
	"go/types"
	"strings"

	"golang.org/x/tools/go/ssa"
)

// prelude function signatures usable directly in contracts.
var rawFuncs = map[string]struct {
	smt string
	ret string
}{
	"substr": {"str_sub", SStr}, "cat": {"str_cat", SStr}, "count": {"str_count", SInt}, "at": {"str_at", SInt},
	"ltrim": {"str_ltrim", SStr}, "rtrim": {"str_rtrim", SStr}, "stripws": {"str_stripws", SStr},
	"lspace": {"str_lspace", SInt}, "rspace": {"str_rspace", SInt}, "hasprefix": {"str_hasprefix", SBool},
	"runecount": {"str_runecount", SInt}, "strlt": {"str_lt", SBool},
	"typeof": {"typeof", SInt}, "kind": {"kind", SInt}, "kindof": {"kindof", SInt},
	"pl_int": {"pl_int", SInt}, "pl_bool": {"pl_bool", SBool}, "pl_str": {"pl_str", SStr}, "pl_flt": {"pl_flt", SFlt},
	"pl_len": {"pl_len", SInt}, "pl_elem": {"pl_elem", SVal}, "pl_ptr": {"pl_ptr", SInt}, "pl_deref": {"pl_deref", SVal}, "pl_mhas": {"pl_mhas", SBool}, "pl_mget": {"pl_mget", SVal}, "tassignable": {"tassignable", SBool}, "tnumin": {"tnumin", SInt}, "sprint1": {"sprint1", SStr}, "sprintf5": {"sprintf5", SStr}, "requote": {"requote", SStr}, "unquote": {"unquote", SStr}, "tokdelim": {"tokdelim", SStr}, "tvariadic": {"tvariadic", SBool}, "tin": {"tin", SInt},
	"tcomparable": {"tcomparable", SBool}, "telem": {"telem", SInt}, "tkey": {"tkey", SInt},
	"i2f": {"i2f", SFlt}, "f2i": {"f2i", SInt}, "fadd": {"f_add", SFlt}, "fsub": {"f_sub", SFlt}, "fmul": {"f_mul", SFlt},
	"fdiv": {"f_div", SFlt}, "flt": {"f_lt", SBool}, "feq": {"f_eq", SBool}, "isnan": {"f_isnan", SBool},
	"tdiv": {"tdiv", SInt}, "tmod": {"tmod", SInt}, "in_i64": {"in_i64", SBool},
	"s_base": {"s_base", SInt}, "s_off": {"s_off", SInt}, "s_len": {"s_len", SInt}, "s_cap": {"s_cap", SInt},
	"arr2str":  {"arr2str", SStr},
	"rv_valid": {"rv_valid", SBool}, "rv_val": {"rv_val", SVal}, "rv_iface": {"rv_iface", SBool}, "mk_rv": {"mk_rv", "RV"},
	"runes2str": {"runes2str", SStr}, "str_runes": {"str_runes", "(Array Int Int)"},
	"tmd": {"tmd", SStr}, "fsread": {"fsread", SStr},
	"rv_deepnan": {"rv_deepnan", SBool},
	"rvkind":     {"rvkind", SInt}, "tconvertible": {"tconvertible", SBool},
	"tnumout": {"tnumout", SInt}, "tout": {"tout", SInt}, "tmethod": {"tmethod", SBool}, "tfield": {"tfield", SBool},
	"texported": {"texported", SBool}, "tnumfield": {"tnumfield", SInt}, "fprinted": {"fprinted", SStr}, "spellsint": {"spellsint", SBool}, "parseint": {"parseint", SInt}, "spellsflt": {"spellsflt", SBool}, "parseflt": {"parseflt", SFlt}, "tviaptr": {"tviaptr", SBool},
	"vcomparable": {"vcomparable", SBool}, "tdeepcmp": {"tdeepcmp", SBool},
}

func (c *SpecCtx) args(es []ast.Expr) []TT {
	var out []TT
	for _, e := range es {
		out = append(out, c.tr(e))
	}
	return out
}

func (c *SpecCtx) withBound(name, sort string, f func() Term) Term {
	nb := map[string]string{}
	for k, v := range c.bound {
		nb[k] = v
	}
	nb[name] = sort
	c2 := *c
	c2.bound = nb
	saved := *c
	*c = c2
	defer func() { *c = saved }()
	return f()
}

func (c *SpecCtx) call(e *ast.CallExpr) TT {
	boolT := types.Typ[types.Bool]
	intT := types.Typ[types.Int]
	if id, ok := e.Fun.(*ast.Ident); ok {
		switch id.Name {
		case "old":
			if c.old == nil {
				c.failf("old() not available here")
			}
			c2 := *c
			c2.st = c.old
			c2.inOld = true
			return c2.tr(e.Args[0])
		case "len":
			x := c.tr(e.Args[0])
			switch x.T.Sort {
			case SStr:
				return TT{T: app(SInt, "str_len", x.T), Ty: intT}
			case SSlc:
				return TT{T: sLen(x.T), Ty: intT}
			}
			if x.Ty != nil {
				if mt, ok := types.Unalias(x.Ty).Underlying().(*types.Map); ok {
					return TT{T: c.ex.mapCard(c.st, mt, x.T), Ty: intT}
				}
			}
			c.failf("len of sort %s", x.T.Sort)
		case "cap":
			x := c.tr(e.Args[0])
			return TT{T: sCap(x.T), Ty: intT}
		case "forall", "exists":
			name := e.Args[0].(*ast.Ident).Name
			if len(e.Args) == 4 {
				lo, hi := c.tr(e.Args[1]), c.tr(e.Args[2])
				body := c.withBound(name, SInt, func() Term { return c.formulaExpr(e.Args[3]) })
				q := mk(SInt, "q_"+name)
				if id.Name == "forall" {
					inner := fmt.Sprintf("(=> (and (<= %s %s) (< %s %s)) %s)", lo.T.S, q.S, q.S, hi.T.S, body.S)
					if pats := autoPatterns(body.S, "q_"+name); pats != "" {
						return TT{T: mk(SBool, fmt.Sprintf("(forall ((q_%s Int)) (! %s %s))", name, inner, pats)), Ty: boolT}
					}
					return TT{T: mk(SBool, fmt.Sprintf("(forall ((q_%s Int)) %s)", name, inner)), Ty: boolT}
				}
				return TT{T: mk(SBool, fmt.Sprintf("(exists ((q_%s Int)) (and (<= %s %s) (< %s %s) %s))", name, lo.T.S, q.S, q.S, hi.T.S, body.S)), Ty: boolT}
			}
			if len(e.Args) == 3 {
				// forall(x, "Sort", body)
				sortName := strings.Trim(e.Args[1].(*ast.BasicLit).Value, "\"")
				body := c.withBound(name, sortName, func() Term { return c.formulaExpr(e.Args[2]) })
				kw := "forall"
				if id.Name == "exists" {
					kw = "exists"
				}
				if kw == "forall" {
					if pats := autoPatterns(body.S, "q_"+name); pats != "" {
						return TT{T: mk(SBool, fmt.Sprintf("(forall ((q_%s %s)) (! %s %s))", name, sortName, body.S, pats)), Ty: boolT}
					}
				}
				return TT{T: mk(SBool, fmt.Sprintf("(%s ((q_%s %s)) %s)", kw, name, sortName, body.S)), Ty: boolT}
			}
			c.failf("bad quantifier")
		case "implies":
			a, b := c.tr(e.Args[0]), c.tr(e.Args[1])
			return TT{T: implies(a.T, b.T), Ty: boolT}
		case "same":
			// identity (SMT =), also for floats where == means IEEE equality
			a, b := c.tr(e.Args[0]), c.tr(e.Args[1])
			a, b = c.coerceNil(a, b), c.coerceNil(b, a)
			if a.T.Sort != b.T.Sort {
				c.failf("same() between sorts %s and %s", a.T.Sort, b.T.Sort)
			}
			return TT{T: eq(a.T, b.T), Ty: boolT}
		case "iff":
			a, b := c.tr(e.Args[0]), c.tr(e.Args[1])
			return TT{T: eq(a.T, b.T), Ty: boolT}
		case "ite":
			cond, a, b := c.tr(e.Args[0]), c.tr(e.Args[1]), c.tr(e.Args[2])
			a, b = c.coerceNil(a, b), c.coerceNil(b, a)
			return TT{T: ite(cond.T, a.T, b.T), Ty: a.Ty}
		case "min":
			a, b := c.tr(e.Args[0]), c.tr(e.Args[1])
			return TT{T: app(SInt, "imin", a.T, b.T), Ty: intT}
		case "max":
			a, b := c.tr(e.Args[0]), c.tr(e.Args[1])
			return TT{T: app(SInt, "imax", a.T, b.T), Ty: intT}
		case "is":
			x := c.tr(e.Args[0])
			t := c.resolveType(e.Args[1])
			if types.IsInterface(t) {
				return TT{T: and(not(eq(x.T, nilVal)), c.ex.implementsPred(t, app(SInt, "typeof", x.T))), Ty: boolT}
			}
			return TT{T: eq(app(SInt, "typeof", x.T), intLit(int64(c.w().typeID(t, c.ex.d)))), Ty: boolT}
		case "tid":
			t := c.resolveType(e.Args[0])
			return TT{T: intLit(int64(c.w().typeID(t, c.ex.d))), Ty: intT}
		case "as":
			x := c.tr(e.Args[0])
			t := c.resolveType(e.Args[1])
			return TT{T: c.w().unbox(t, x.T, c.ex.d), Ty: t}
		case "box":
			x := c.tr(e.Args[0])
			if len(e.Args) == 2 {
				t := c.resolveType(e.Args[1])
				return TT{T: c.w().box(t, x.T, c.ex.d), Ty: types.NewInterfaceType(nil, nil)}
			}
			if x.Ty == nil {
				c.failf("box of untyped value")
			}
			return TT{T: c.w().box(defaultType(x.Ty), x.T, c.ex.d), Ty: types.NewInterfaceType(nil, nil)}
		case "has":
			m, k := c.tr(e.Args[0]), c.tr(e.Args[1])
			mt, ok := types.Unalias(m.Ty).Underlying().(*types.Map)
			if !ok {
				c.failf("has() on non-map")
			}
			return TT{T: c.ex.mapHas(c.st, mt, m.T, k.T), Ty: boolT}
		case "mapget":
			// Go semantics of m[k]: the stored value, or the zero value when absent
			m, k := c.tr(e.Args[0]), c.tr(e.Args[1])
			mt, ok := types.Unalias(m.Ty).Underlying().(*types.Map)
			if !ok {
				c.failf("mapget() on non-map")
			}
			return TT{T: ite(c.ex.mapHas(c.st, mt, m.T, k.T), c.ex.mapGet(c.st, mt, m.T, k.T), c.ex.zero(mt.Elem())), Ty: mt.Elem()}
		case "wtotal":
			w := c.tr(e.Args[0])
			h := c.ex.heap(c.st, "W$total", arraySort(SVal, SStr))
			return TT{T: sel(h, w.T, SStr), Ty: types.Typ[types.String]}
		case "wappended":
			// writer w accepted exactly s more; every other writer is unchanged
			if c.old == nil {
				c.failf("wappended() needs an old state")
			}
			w, sx := c.tr(e.Args[0]), c.tr(e.Args[1])
			h1 := c.ex.heap(c.st, "W$total", arraySort(SVal, SStr))
			h0 := c.ex.heap(c.old, "W$total", arraySort(SVal, SStr))
			return TT{T: eq(h1, sto(h0, w.T, app(SStr, "str_cat", sel(h0, w.T, SStr), sx.T))), Ty: boolT}
		case "wunchanged":
			if c.old == nil {
				c.failf("wunchanged() needs an old state")
			}
			h1 := c.ex.heap(c.st, "W$total", arraySort(SVal, SStr))
			h0 := c.ex.heap(c.old, "W$total", arraySort(SVal, SStr))
			return TT{T: eq(h1, h0), Ty: boolT}
		case "mapset":
			// the map heaps are the old heaps updated at (m, k) with v, and nothing else changed
			m, k, v := c.tr(e.Args[0]), c.tr(e.Args[1]), c.tr(e.Args[2])
			mt, ok := types.Unalias(m.Ty).Underlying().(*types.Map)
			if !ok || c.old == nil {
				c.failf("mapset() needs a map-typed first argument and an old state")
			}
			_, _, has1, val1, ks, vs := c.ex.mapHeaps(c.st, mt)
			_, _, has0, val0, _, _ := c.ex.mapHeaps(c.old, mt)
			if v.T.Sort != vs && v.Ty != nil && vs == SVal {
				v = TT{T: c.w().box(defaultType(v.Ty), v.T, c.ex.d)}
			}
			return TT{T: and(
				eq(has1, sto(has0, m.T, sto(sel(has0, m.T, arraySort(ks, SBool)), k.T, tTrue))),
				eq(val1, sto(val0, m.T, sto(sel(val0, m.T, arraySort(ks, vs)), k.T, v.T)))), Ty: boolT}
		case "fresh":
			x := c.tr(e.Args[0])
			switch x.T.Sort {
			case SSlc:
				return TT{T: ge(sBase(x.T), c.st.alloc0), Ty: boolT}
			case SInt:
				return TT{T: ge(x.T, c.st.alloc0), Ty: boolT}
			}
			c.failf("fresh() of sort %s", x.T.Sort)
		case "intag":
			// the context is a rendererContext created for a tag node (not for a block)
			x := c.tr(e.Args[0])
			rct := c.w().lookupType("render.rendererContext")
			if rct == nil {
				c.failf("render.rendererContext not found")
			}
			val := c.w().unbox(rct, x.T, c.ex.d)
			node, _ := c.ex.loadPath(val, rct, []int{1})
			return TT{T: and(eq(app(SInt, "typeof", x.T), intLit(int64(c.w().typeID(rct, c.ex.d)))), not(eq(node, intLit(0)))), Ty: boolT}
		case "wsink":
			// the writer that finally receives the bytes: a trimWriter forwards to its w
			x := c.tr(e.Args[0])
			twt := c.w().lookupType("*render.trimWriter")
			if twt == nil {
				return x
			}
			ptr := c.w().unbox(twt, x.T, c.ex.d)
			fld := c.ex.loadField(c.st, ptr, twt.(*types.Pointer).Elem(), 0)
			return TT{T: ite(eq(app(SInt, "typeof", x.T), intLit(int64(c.w().typeID(twt, c.ex.d)))), fld, x.T), Ty: x.Ty}
		case "valid":
			// the declared type invariant of the argument's type
			x := c.tr(e.Args[0])
			if x.Ty == nil {
				c.failf("valid() of untyped value")
			}
			if x.T.IsZero() {
				c.failf("valid() of a tracked interior pointer")
			}
			return TT{T: c.ex.typeInv(c.st, x.Ty, x.T), Ty: boolT}
		case "sameheap", "sameold":
			// sameheap("H"): heap H is unchanged since the old state;
			// sameold("H"): every object that existed in the old state is unchanged in H
			if c.old == nil {
				c.failf("%s() needs an old state", id.Name)
			}
			hn := strings.Trim(e.Args[0].(*ast.BasicLit).Value, "\"")
			srt := c.st.hsorts[hn]
			if srt == "" {
				srt = c.ex.heapSortByName(hn)
			}
			if srt == "" {
				c.failf("unknown heap %q", hn)
			}
			h1 := c.ex.heap(c.st, hn, srt)
			h0 := c.ex.heap(c.old, hn, srt)
			if id.Name == "sameheap" {
				return TT{T: eq(h1, h0), Ty: boolT}
			}
			return TT{T: mk(SBool, fmt.Sprintf("(forall ((r Int)) (! (=> (< r %s) (= (select %s r) (select %s r))) :pattern ((select %s r))))", c.old.alloc.S, h1.S, h0.S, h1.S)), Ty: boolT}
		case "onlybase":
			// onlybase("S$Val", s): in that slice heap only the backing array of s may differ from the old state
			if c.old == nil {
				c.failf("onlybase() needs an old state")
			}
			hn := strings.Trim(e.Args[0].(*ast.BasicLit).Value, "\"")
			x := c.tr(e.Args[1])
			srt := c.st.hsorts[hn]
			if srt == "" {
				srt = c.ex.heapSortByName(hn)
			}
			h1 := c.ex.heap(c.st, hn, srt)
			h0 := c.ex.heap(c.old, hn, srt)
			return TT{T: mk(SBool, fmt.Sprintf("(forall ((r Int)) (! (=> (not (= r %s)) (= (select %s r) (select %s r))) :pattern ((select %s r))))", sBase(x.T).S, h1.S, h0.S, h1.S)), Ty: boolT}
		case "newbuf":
			// x is a *bytes.Buffer allocated since the old state (a fresh capture buffer)
			if c.old == nil {
				c.failf("newbuf() needs an old state")
			}
			x := c.tr(e.Args[0])
			bt := c.w().lookupType("*bytes.Buffer")
			return TT{T: and(eq(app(SInt, "typeof", x.T), intLit(int64(c.w().typeID(bt, c.ex.d)))), ge(c.w().unbox(bt, x.T, c.ex.d), c.old.alloc)), Ty: boolT}
		case "freshOrNil":
			x := c.tr(e.Args[0])
			switch x.T.Sort {
			case SSlc:
				return TT{T: or(ge(sBase(x.T), c.st.alloc0), eq(sBase(x.T), intLit(0))), Ty: boolT}
			case SInt:
				return TT{T: or(ge(x.T, c.st.alloc0), eq(x.T, intLit(0))), Ty: boolT}
			}
		case "bstr":
			// content of a []byte as a string
			x := c.tr(e.Args[0])
			_, h := c.ex.slcHeap(c.st, SInt)
			return TT{T: app(SStr, "arr2str", sel(h, sBase(x.T), arraySort(SInt, SInt)), sOff(x.T), sLen(x.T)), Ty: types.Typ[types.String]}
		case "visited":
			// visited(k): key already produced by the (single) map iteration in scope
			k := c.tr(e.Args[0])
			if c.iterKey != "" {
				if g, ok := c.st.ghosts[c.iterKey]; ok {
					return TT{T: sel(g, k.T, SBool), Ty: boolT}
				}
			}
			for name, g := range c.st.ghosts {
				if strings.HasPrefix(name, "iter$") {
					if ks, _, ok := arrayParts(g.Sort); ok && ks == k.T.Sort {
						return TT{T: sel(g, k.T, SBool), Ty: boolT}
					}
				}
			}
			c.failf("visited(): no map iteration in scope")
		case "addr":
			// addr(x.f): the identity of the address of field f of the heap object x
			if len(e.Args) == 3 {
				// addr(p, T, f): p is an object reference (Int) of struct type T
				base := c.tr(e.Args[0])
				ty := c.resolveType(e.Args[1])
				fid, _ := e.Args[2].(*ast.Ident)
				if st := structOf(ty); st != nil && fid != nil {
					for i := 0; i < st.NumFields(); i++ {
						if st.Field(i).Name() == fid.Name {
							return TT{T: c.ex.fieldAddrTerm(base.T, ty, i), Ty: types.NewPointer(st.Field(i).Type())}
						}
					}
				}
				c.failf("addr(p, T, f): bad struct type or field")
			}
			se, ok := e.Args[0].(*ast.SelectorExpr)
			if !ok {
				c.failf("addr() expects a field selection")
			}
			x := c.tr(se.X)
			pt, ok := types.Unalias(x.Ty).Underlying().(*types.Pointer)
			if !ok {
				c.failf("addr(): %s is not a pointer to a struct", exprString(se.X))
			}
			st := structOf(pt.Elem())
			if st == nil {
				c.failf("addr(): not a struct")
			}
			for i := 0; i < st.NumFields(); i++ {
				if st.Field(i).Name() == se.Sel.Name {
					base := x.T
					if base.IsZero() && x.P != nil {
						base = c.ptrTerm(x.P)
					}
					return TT{T: c.ex.fieldAddrTerm(base, pt.Elem(), i), Ty: types.NewPointer(st.Field(i).Type())}
				}
			}
			c.failf("addr(): no field %s", se.Sel.Name)
		case "invkept":
			// invkept(T): every object of struct type T whose type invariant held in the old state
			// still satisfies it (the callee preserves the invariant of ALL objects of that type)
			if c.old == nil {
				c.failf("invkept() needs an old state")
			}
			ty := c.resolveType(e.Args[0])
			pt := types.NewPointer(ty)
			q := mk(SInt, "q_invp")
			before := c.ex.typeInv(c.old, pt, q)
			after := c.ex.typeInv(c.st, pt, q)
			if before.S == after.S {
				return TT{T: tTrue, Ty: boolT}
			}
			return TT{T: mk(SBool, fmt.Sprintf("(forall ((q_invp Int)) (=> %s %s))", before.S, after.S)), Ty: boolT}
		case "nvisited":
			// nvisited(): number of keys produced so far by the (single) map iteration in scope
			for name, g := range c.st.ghosts {
				if strings.HasPrefix(name, "iter$") && (c.iterKey == "" || name == c.iterKey) {
					if ks, vs, ok := arrayParts(g.Sort); ok && vs == SBool {
						fn := smtName("map_card$", ks)
						if !c.ex.d.has("fun:" + fn) {
							as := arraySort(ks, SBool)
							c.ex.d.declFun(fn, []string{as}, SInt)
							c.ex.d.axiom("card:"+fn, fmt.Sprintf("(assert (forall ((h %s)) (! (>= (%s h) 0) :pattern ((%s h)))))\n(assert (= (%s ((as const %s) false)) 0))\n(assert (forall ((h %s) (k %s)) (! (= (%s (store h k true)) (+ (%s h) (ite (select h k) 0 1))) :pattern ((%s (store h k true))))))",
								as, fn, fn, fn, as, as, ks, fn, fn, fn))
						}
						return TT{T: app(SInt, fn, g), Ty: types.Typ[types.Int]}
					}
				}
			}
			c.failf("nvisited(): no map iteration in scope")
		case "result_of":
			// not supported
		}
		if d, ok := c.w().defines[id.Name]; ok {
			return c.applyDefine(d, c.args(e.Args))
		}
		if rf, ok := rawFuncs[id.Name]; ok {
			as := c.args(e.Args)
			ts := make([]Term, len(as))
			for i, a := range as {
				ts[i] = a.T
			}
			return TT{T: app(rf.ret, rf.smt, ts...)}
		}
		// pure function of the current package
		if c.pkg != nil {
			sel := shortName(c.pkg.Path()) + "." + id.Name
			if con, ok := c.w().cons[sel]; ok && con.Pure {
				return c.applyPure(sel, con, nil, c.args(e.Args))
			}
		}
		c.failf("unknown function %s", id.Name)
	}
	if se, ok := e.Fun.(*ast.SelectorExpr); ok {
		// pkg.Func(...)
		if id, ok := se.X.(*ast.Ident); ok {
			if _, isLoc := c.tryIdent(id.Name); !isLoc {
				if pkg := c.findPackage(id.Name); pkg != nil {
					sel := shortName(pkg.Path()) + "." + se.Sel.Name
					if con, ok := c.w().cons[sel]; ok && con.Pure {
						return c.applyPure(sel, con, nil, c.args(e.Args))
					}
					c.failf("%s is not a pure contracted function", sel)
				}
			}
		}
		// method call on a value
		recv := c.tr(se.X)
		return c.methodCall(recv, se.Sel.Name, c.args(e.Args))
	}
	c.failf("unsupported call %s", exprString(e))
	return TT{}
}

func (c *SpecCtx) formulaExpr(e ast.Expr) Term {
	t := c.tr(e)
	if t.T.Sort != SBool {
		c.failf("expected a boolean, got sort %s in %s", t.T.Sort, exprString(e))
	}
	return t.T
}

func (c *SpecCtx) applyDefine(d *Define, args []TT) TT {
	if len(args) != len(d.Params) {
		c.failf("define %s expects %d arguments", d.Name, len(d.Params))
	}
	c.ex.declDefine(d)
	ts := make([]Term, len(args))
	for i, a := range args {
		ts[i] = a.T
		if a.T.Sort != d.Sorts[i] {
			c.failf("define %s: argument %d has sort %s, want %s", d.Name, i, a.T.Sort, d.Sorts[i])
		}
	}
	return TT{T: app(d.Ret, "df$"+d.Name, ts...)}
}

// declDefine emits a define-fun(-rec) for a spec function.
func (ex *Exec) declDefine(d *Define) {
	key := "define:" + d.Name
	if ex.d.has(key) {
		return
	}
	ex.d.seen[key] = true
	c := &SpecCtx{ex: ex, st: &State{ghosts: map[string]Term{}, heaps: map[string]Term{}, hsorts: map[string]string{}, hver: map[string]int{}, pending: map[string][]pendingFrame{}}, binds: map[string]TT{}, bound: map[string]string{},
		clause: &Clause{File: d.File, Line: d.Line}}
	var ps []string
	for i, p := range d.Params {
		c.bound[p] = d.Sorts[i]
		ps = append(ps, fmt.Sprintf("(q_%s %s)", p, d.Sorts[i]))
	}
	var body Term
	if d.Ret == SBool {
		body = c.Formula(d.Body)
	} else {
		body = c.Expr(d.Body).T
	}
	kw := "define-fun"
	if d.Rec {
		kw = "define-fun-rec"
	}
	ex.d.order = append(ex.d.order, fmt.Sprintf("(%s df$%s (%s) %s %s)", kw, d.Name, strings.Join(ps, " "), d.Ret, body.S))
}

// methodCall translates recv.M(args) for pure methods.
func (c *SpecCtx) methodCall(recv TT, name string, args []TT) TT {
	if recv.Ty == nil {
		c.failf("method %s on untyped value", name)
	}
	t := types.Unalias(recv.Ty)
	if types.IsInterface(t) {
		isel := typeString(t)
		ic := c.w().ifaceFor(t, name)
		if ic == nil {
			c.failf("no pure contract for interface method %s.%s", isel, name)
		}
		m := ic.Methods[name]
		if !m.Pure {
			c.failf("interface method %s.%s is not pure", ic.Sel, name)
		}
		return c.ex.applyIfacePure(c.st, ic, m, recv.T, args)
	}
	// concrete method
	sel := "(" + typeString(t) + ")." + name
	con, ok := c.w().cons[sel]
	if !ok {
		// pointer receiver / value receiver variations
		if p, isPtr := t.(*types.Pointer); isPtr {
			sel = "(" + typeString(p.Elem()) + ")." + name
			con, ok = c.w().cons[sel]
			if ok {
				recv = c.deref(recv)
			}
		}
	}
	if !ok || !con.Pure {
		c.failf("no pure contract for method %s", sel)
	}
	return c.applyPure(sel, con, &recv, args)
}

// ifaceFor finds the interface contract declaring method `name` for interface type t.
func (w *World) ifaceFor(t types.Type, name string) *IfaceContract {
	if ic, ok := w.ifaces[typeString(t)]; ok {
		if _, ok := ic.Methods[name]; ok {
			return ic
		}
	}
	// an interface embedding / structurally including a contracted interface
	for _, ic := range w.ifaces {
		if _, ok := ic.Methods[name]; !ok {
			continue
		}
		it := w.lookupType(ic.Sel)
		if it == nil {
			continue
		}
		if iface, ok := types.Unalias(it).Underlying().(*types.Interface); ok {
			if types.Implements(t, iface) || types.AssignableTo(t, it) {
				return ic
			}
		}
	}
	return nil
}

func (c *SpecCtx) applyPure(sel string, con *Contract, recv *TT, args []TT) TT {
	fn := c.w().fns[sel]
	if fn == nil {
		c.failf("pure function %s not found", sel)
	}
	var ts []Term
	if recv != nil {
		ts = append(ts, recv.T)
	}
	for _, a := range args {
		ts = append(ts, a.T)
	}
	return c.ex.purApp(c.st, fn, sel, con, ts)
}

// purApp returns pf$sel(args), declaring the symbol and its contract axiom.
func (ex *Exec) purApp(st *State, fn *ssa.Function, sel string, con *Contract, args []Term) TT {
	name := smtName("pf$", sel)
	sig := fn.Signature
	if sig.Results().Len() != 1 {
		panic(specError{fmt.Sprintf("pure function %s must have exactly one result", sel)})
	}
	rt := sig.Results().At(0).Type()
	rs := ex.w.sortOf(rt, ex.d)
	if !ex.d.has("fun:" + name) {
		var as []string
		for _, p := range fn.Params {
			as = append(as, ex.w.sortOf(p.Type(), ex.d))
		}
		ex.d.declFun(name, as, rs)
		ex.pureAxiom(fn, sel, con, name, as, rs)
	}
	// coerce untyped nil etc.
	return TT{T: app(rs, name, args...), Ty: rt}
}

// pureAxiom: forall params. requires ==> ensures[result := pf(params)].
// Justified by the function's own obligations (same run) or listed as trusted.
func (ex *Exec) pureAxiom(fn *ssa.Function, sel string, con *Contract, name string, as []string, rs string) {
	if len(con.Ensures) == 0 || sel == ex.sel {
		return // never assume the contract of the function under verification
	}
	dummy := &State{ghosts: map[string]Term{}, heaps: map[string]Term{}, hsorts: map[string]string{}, hver: map[string]int{}, pending: map[string][]pendingFrame{}, globals: map[string]Term{}, gsorts: map[string]string{}, alloc: intLit(1), alloc0: intLit(1)}
	c := &SpecCtx{ex: ex, st: dummy, old: dummy, binds: map[string]TT{}, bound: map[string]string{}, pkg: pkgOf(fn)}
	var qs []string
	var ps []Term
	for i, p := range fn.Params {
		q := mk(as[i], "q_"+p.Name())
		c.binds[p.Name()] = TT{T: q, Ty: p.Type()}
		qs = append(qs, fmt.Sprintf("(q_%s %s)", p.Name(), as[i]))
		ps = append(ps, q)
	}
	res := app(rs, name, ps...)
	c.binds["result"] = TT{T: res, Ty: fn.Signature.Results().At(0).Type()}
	var pre, post []Term
	for i := range con.Requires {
		c.clause = &con.Requires[i]
		pre = append(pre, c.Formula(con.Requires[i].Text))
	}
	// type facts of parameters are part of the antecedent
	for i, p := range fn.Params {
		pre = append(pre, rangeAssume(p.Type(), ps[i]))
	}
	if fn.Signature.Recv() != nil && len(ps) > 0 {
		pre = append(pre, ex.typeInv(dummy, fn.Params[0].Type(), ps[0]))
	}
	for i := range con.Ensures {
		c.clause = &con.Ensures[i]
		post = append(post, c.Formula(con.Ensures[i].Text))
	}
	body := implies(and(pre...), and(post...))
	if len(qs) == 0 {
		ex.d.axiom("pure:"+name, fmt.Sprintf("(assert %s)", body.S))
	} else {
		ex.d.axiom("pure:"+name, fmt.Sprintf("(assert (forall (%s) (! %s :pattern (%s))))", strings.Join(qs, " "), body.S, res.S))
	}
	if con.Trusted {
		ex.d.trust("trusted contract: " + sel)
	} else {
		ex.d.trust("contract of " + sel + " (proved separately in this run)")
	}
}

func pkgOf(fn *ssa.Function) *types.Package {
	for f := fn; f != nil; f = f.Parent() {
		if f.Pkg != nil {
			return f.Pkg.Pkg
		}
	}
	if fn.Signature.Recv() != nil {
		if n := namedOf(fn.Signature.Recv().Type()); n != nil {
			return n.Obj().Pkg()
		}
	}
	return nil
}

// applyIfacePure returns m$I$M(recv, args) and declares interface-level axioms and
// the links to concrete implementations with pure contracts.
func (ex *Exec) applyIfacePure(st *State, ic *IfaceContract, m *IfaceMethod, recv Term, args []TT) TT {
	it := ex.w.lookupType(ic.Sel)
	if it == nil {
		panic(specError{"unknown interface " + ic.Sel})
	}
	iface := types.Unalias(it).Underlying().(*types.Interface)
	var meth *types.Func
	for i := 0; i < iface.NumMethods(); i++ {
		if iface.Method(i).Name() == m.Name {
			meth = iface.Method(i)
		}
	}
	if meth == nil {
		panic(specError{"no method " + m.Name + " in " + ic.Sel})
	}
	sig := meth.Type().(*types.Signature)
	if sig.Results().Len() != 1 {
		panic(specError{"pure interface method must have one result: " + m.Name})
	}
	rt := sig.Results().At(0).Type()
	rs := ex.w.sortOf(rt, ex.d)
	// one function symbol per method name and signature: dynamic dispatch depends on
	// the dynamic type and the method, not on the static interface type of the call
	as := []string{SVal}
	for i := 0; i < sig.Params().Len(); i++ {
		as = append(as, ex.w.sortOf(sig.Params().At(i).Type(), ex.d))
	}
	name := smtName("m$", m.Name+"$"+strings.Join(as[1:], "_")+"$"+rs)
	ts := []Term{recv}
	for _, a := range args {
		ts = append(ts, a.T)
	}
	if !ex.d.has("fun:" + name) {
		ex.d.declFun(name, as, rs)
	}
	if axk := "ifaceax:" + ic.Sel + "." + m.Name; !ex.d.has(axk) {
		ex.d.seen[axk] = true
		ex.ifaceAxioms(ic, m, it, sig, name, as, rs)
	}
	res := app(rs, name, ts...)
	ex.readsLinks(st, it, m.Name, recv, ts[1:], res)
	return TT{T: res, Ty: rt}
}

// readsLinks: for implementers whose contract is `reads` (a heap-reading accessor of
// an immutable object), the interface function's value on a receiver of that dynamic
// type is what the accessor's ensures says in the CURRENT heap. Sound because the
// fields of an immutable type are only ever written on objects still private to the
// allocating activation (immut obligations).
func (ex *Exec) readsLinks(st *State, it types.Type, mname string, recv Term, args []Term, res Term) {
	if st == nil || st.hver == nil || st.frames == nil && st.pc == nil && len(st.heaps) == 0 && st.alloc.S == "1" {
		return
	}
	for _, sel := range ex.w.implementers(it, mname) {
		con := ex.w.cons[sel]
		if con == nil || !con.Reads || sel == ex.sel {
			continue
		}
		fn := ex.w.fns[sel]
		if fn == nil || len(fn.Params) != len(args)+1 {
			continue
		}
		recvT := fn.Signature.Recv().Type()
		key := "readslink:" + sel + ":" + recv.S + ":" + joinTerms(args) + fmt.Sprint(st.epoch, st.hver)
		if ex.linkSeen == nil {
			ex.linkSeen = map[string]bool{}
		}
		_ = key
		c := &SpecCtx{ex: ex, st: st, old: st, binds: map[string]TT{}, bound: map[string]string{}, pkg: pkgOf(fn)}
		c.binds[fn.Params[0].Name()] = TT{T: ex.w.unbox(recvT, recv, ex.d), Ty: recvT}
		for i, a := range args {
			c.binds[fn.Params[i+1].Name()] = TT{T: a, Ty: fn.Params[i+1].Type()}
		}
		c.binds["result"] = TT{T: res, Ty: fn.Signature.Results().At(0).Type()}
		var post []Term
		for i := range con.Ensures {
			c.clause = &con.Ensures[i]
			post = append(post, c.Formula(con.Ensures[i].Text))
		}
		tid := intLit(int64(ex.w.typeID(recvT, ex.d)))
		st.assume(implies(eq(app(SInt, "typeof", recv), tid), and(post...)))
		ex.d.trust("accessor " + sel + " of an immutable object read in the current heap (fields written only while the object is private to its allocating activation)")
	}
}

func (ex *Exec) ifaceAxioms(ic *IfaceContract, m *IfaceMethod, it types.Type, sig *types.Signature, name string, as []string, rs string) {
	dummy := &State{ghosts: map[string]Term{}, heaps: map[string]Term{}, hsorts: map[string]string{}, hver: map[string]int{}, pending: map[string][]pendingFrame{}, globals: map[string]Term{}, gsorts: map[string]string{}, alloc: intLit(1), alloc0: intLit(1)}
	pkg := (*types.Package)(nil)
	if n, ok := types.Unalias(it).(*types.Named); ok {
		pkg = n.Obj().Pkg()
	}
	c := &SpecCtx{ex: ex, st: dummy, old: dummy, binds: map[string]TT{}, bound: map[string]string{}, pkg: pkg}
	qs := []string{"(q_this Val)"}
	ps := []Term{mk(SVal, "q_this")}
	c.binds["this"] = TT{T: ps[0], Ty: it}
	for i := 0; i < sig.Params().Len(); i++ {
		p := sig.Params().At(i)
		pn := p.Name()
		if pn == "" || pn == "_" {
			pn = fmt.Sprintf("arg%d", i)
		}
		q := mk(as[i+1], "q_"+pn)
		c.binds[pn] = TT{T: q, Ty: p.Type()}
		c.binds[fmt.Sprintf("arg%d", i)] = TT{T: q, Ty: p.Type()}
		qs = append(qs, fmt.Sprintf("(q_%s %s)", pn, as[i+1]))
		ps = append(ps, q)
	}
	res := app(rs, name, ps...)
	c.binds["result"] = TT{T: res, Ty: sig.Results().At(0).Type()}
	var pre, post []Term
	pre = append(pre, not(eq(ps[0], nilVal)), ex.implementsPred(it, app(SInt, "typeof", ps[0])))
	for i := range m.Requires {
		c.clause = &m.Requires[i]
		pre = append(pre, c.Formula(m.Requires[i].Text))
	}
	for i := range m.Ensures {
		c.clause = &m.Ensures[i]
		post = append(post, c.Formula(m.Ensures[i].Text))
	}
	// NOTE: no machine-range fact for the result here: with arithmetic treated as
	// mathematical a universally quantified range fact can contradict a defining
	// contract (e.g. Range.Len == e-b+1); ranges are assumed per call site instead.
	ex.d.axiom("iface:"+ic.Sel+":"+name, fmt.Sprintf("(assert (forall (%s) (! %s :pattern (%s))))", strings.Join(qs, " "), implies(and(pre...), and(post...)).S, res.S))
	ex.d.trust("interface contract " + ic.Sel + "." + m.Name + " (implementations in /repo proved by impl obligations; external implementations assumed to satisfy it)")
	// links to concrete pure implementations
	for _, sel := range ex.w.implementers(it, m.Name) {
		con := ex.w.cons[sel]
		if con == nil {
			ex.d.trust("in-repo implementation without contract (assumed to satisfy " + ic.Sel + "." + m.Name + "): " + sel)
			continue
		}
		if !con.Pure {
			continue
		}
		fn := ex.w.fns[sel]
		if fn == nil {
			continue
		}
		recvT := fn.Signature.Recv().Type()
		var cas []string
		for _, p := range fn.Params {
			cas = append(cas, ex.w.sortOf(p.Type(), ex.d))
		}
		pname := smtName("pf$", sel)
		if !ex.d.has("fun:" + pname) {
			crs := ex.w.sortOf(fn.Signature.Results().At(0).Type(), ex.d)
			ex.d.declFun(pname, cas, crs)
			ex.pureAxiom(fn, sel, con, pname, cas, crs)
		}
		x := mk(cas[0], "q_x")
		lq := []string{fmt.Sprintf("(q_x %s)", cas[0])}
		largs := []Term{ex.w.box(recvT, x, ex.d)}
		cargs := []Term{x}
		for i := 1; i < len(cas); i++ {
			q := mk(cas[i], fmt.Sprintf("q_a%d", i))
			lq = append(lq, fmt.Sprintf("(q_a%d %s)", i, cas[i]))
			largs = append(largs, q)
			cargs = append(cargs, q)
		}
		lhs := app(rs, name, largs...)
		ex.d.axiom("link:"+name+":"+sel, fmt.Sprintf("(assert (forall (%s) (! (= %s %s) :pattern (%s))))", strings.Join(lq, " "), lhs.S, app(rs, pname, cargs...).S, lhs.S))
	}
}

// implementers lists the contract selectors of in-repo concrete methods named m
// whose receiver type implements interface it.
func (w *World) implementers(it types.Type, m string) []string {
	iface, ok := types.Unalias(it).Underlying().(*types.Interface)
	if !ok {
		return nil
	}
	var out []string
	for _, fn := range w.allFns {
		if fn.Signature.Recv() == nil || fn.Name() != m || !w.inRepo(fn) {
			continue
		}
		if fn.Synthetic != "" {
			// promoted-method wrappers count only when they carry a contract
			if _, ok := w.cons[shortName(fn.String())]; !ok {
				continue
			}
		}
		rt := fn.Signature.Recv().Type()
		if types.Implements(rt, iface) {
			out = append(out, shortName(fn.String()))
		}
	}
	return out
}

// autoPatterns picks instantiation triggers for a user quantifier: the innermost
// select / uninterpreted applications that mention the bound variable.
func autoPatterns(body, v string) string {
	seen := map[string]bool{}
	var pats []string
	var walk func(s string) bool // returns whether s mentions v
	walk = func(s string) bool {
		if !strings.Contains(s, v) {
			return false
		}
		head, args := splitArgs(s)
		if args == nil {
			return s == v
		}
		childHas := false
		innerPattern := false
		for _, a := range args {
			if walk(a) {
				childHas = true
				if len(a) > 0 && a[0] == '(' {
					h, _ := splitArgs(a)
					if isTriggerHead(h) {
						innerPattern = true
					}
				}
			}
		}
		_ = innerPattern
		if childHas && isTriggerHead(head) && !strings.Contains(s, "(forall ") && !strings.Contains(s, "(exists ") {
			// keep only innermost trigger terms: drop if an argument already produced one containing v
			for _, p := range pats {
				if strings.Contains(s, p) && p != s {
					return true
				}
			}
			if !seen[s] && len(s) < 400 && !strings.Contains(s, "(ite ") && !strings.Contains(s, "(not ") && !strings.Contains(s, "(and ") && !strings.Contains(s, "(or ") && !strings.Contains(s, "(= ") && !strings.Contains(s, "(<") && !strings.Contains(s, "(>") {
				seen[s] = true
				pats = append(pats, s)
			}
		}
		return childHas
	}
	walk(body)
	var okPats []string
	for _, p := range pats {
		if !varUnderArith(p, v) {
			okPats = append(okPats, p)
		}
	}
	pats = okPats
	if len(pats) == 0 || len(pats) > 4 {
		return ""
	}
	var b strings.Builder
	for _, p := range pats {
		b.WriteString(":pattern (" + p + ") ")
	}
	return strings.TrimSpace(b.String())
}

func isTriggerHead(h string) bool {
	switch h {
	case "select", "typeof", "str_at", "str_sub", "pl_elem":
		return true
	}
	return strings.HasPrefix(h, "m$") || strings.HasPrefix(h, "pf$") || strings.HasPrefix(h, "df$") || strings.HasPrefix(h, "box$") || strings.HasPrefix(h, "unbox$")
}

// varUnderArith: does v occur inside an interpreted arithmetic sub-term of s?
func varUnderArith(s, v string) bool {
	for _, op := range []string{"(+ ", "(- ", "(* "} {
		for i := 0; ; {
			k := strings.Index(s[i:], op)
			if k < 0 {
				break
			}
			k += i
			depth := 0
			j := k
			for ; j < len(s); j++ {
				if s[j] == '(' {
					depth++
				} else if s[j] == ')' {
					depth--
					if depth == 0 {
						break
					}
				}
			}
			if j < len(s) && containsWord(s[k:j+1], v) {
				return true
			}
			i = k + len(op)
		}
	}
	return false
}

func containsWord(s, w string) bool {
	for i := 0; ; {
		k := strings.Index(s[i:], w)
		if k < 0 {
			return false
		}
		k += i
		end := k + len(w)
		if (k == 0 || s[k-1] == ' ' || s[k-1] == '(') && (end == len(s) || s[end] == ' ' || s[end] == ')') {
			return true
		}
		i = end
	}
}
