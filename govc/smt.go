package main

// SMT term layer: terms are s-expression strings tagged with a sort.
// The VC generator builds obligations as (declarations, assumptions, goal).

import (
	"fmt"
	"sort"
	"strings"
	"sync"
)

// Sort names used in generated SMT.
const (
	SInt  = "Int"
	SBool = "Bool"
	SStr  = "Str"  // Go string / byte content, uninterpreted + axioms
	SFlt  = "Flt"  // Go float32/float64, uninterpreted + axioms
	SVal  = "Val"  // Go interface value (dynamic type + payload)
	SSlc  = "Slc"  // Go slice header (base, off, len, cap)
	SUnit = "Unit" // no value
)

// Term is an SMT term with its sort.
type Term struct {
	S    string // s-expression
	Sort string
}

func (t Term) String() string { return t.S }
func (t Term) IsZero() bool   { return t.S == "" }

func mk(sort, s string) Term { return Term{S: s, Sort: sort} }

// selectors of declared struct datatypes: selector name -> (constructor, field index);
// used to fold (sel (ctor a b c)) to the component while terms are built.
type selInfo struct {
	ctor string
	idx  int
}

var (
	selMu    sync.RWMutex
	selTable = map[string]selInfo{}
)

func registerSelector(sel, ctor string, idx int) {
	selMu.Lock()
	selTable[sel] = selInfo{ctor, idx}
	selMu.Unlock()
}

// splitTop splits "(head a1 a2 ...)" into head and its top-level arguments.
func sexpParts(s string) (string, []string) {
	if len(s) < 2 || s[0] != '(' || s[len(s)-1] != ')' {
		return s, nil
	}
	body := s[1 : len(s)-1]
	var parts []string
	depth, start := 0, 0
	inBar := false
	for i := 0; i < len(body); i++ {
		c := body[i]
		switch {
		case c == '|':
			inBar = !inBar
		case inBar:
		case c == '(':
			depth++
		case c == ')':
			depth--
		case c == ' ' && depth == 0:
			if i > start {
				parts = append(parts, body[start:i])
			}
			start = i + 1
		}
	}
	if start < len(body) {
		parts = append(parts, body[start:])
	}
	if len(parts) == 0 {
		return s, nil
	}
	return parts[0], parts[1:]
}

func isIntLiteral(s string) bool {
	if s == "" {
		return false
	}
	for _, c := range s {
		if c < '0' || c > '9' {
			return false
		}
	}
	return true
}

func app(sort, f string, args ...Term) Term {
	if len(args) == 0 {
		return Term{S: f, Sort: sort}
	}
	// fold projections of constructors and reads of syntactically identical writes
	if len(args) == 1 && strings.HasPrefix(f, "f$") && strings.HasPrefix(args[0].S, "(mk$") {
		selMu.RLock()
		si, ok := selTable[f]
		selMu.RUnlock()
		if ok {
			if h, as := sexpParts(args[0].S); h == si.ctor && si.idx < len(as) {
				return Term{S: as[si.idx], Sort: sort}
			}
		}
	}
	if f == "select" && len(args) == 2 {
		cur := args[0].S
		for strings.HasPrefix(cur, "(store ") {
			h, as := sexpParts(cur)
			if h != "store" || len(as) != 3 {
				break
			}
			if as[1] == args[1].S {
				return Term{S: as[2], Sort: sort}
			}
			if isIntLiteral(as[1]) && isIntLiteral(args[1].S) {
				cur = as[0] // distinct literals: look through the write
				continue
			}
			break
		}
		if cur != args[0].S {
			return Term{S: "(select " + cur + " " + args[1].S + ")", Sort: sort}
		}
	}
	var b strings.Builder
	b.WriteByte('(')
	b.WriteString(f)
	for _, a := range args {
		b.WriteByte(' ')
		b.WriteString(a.S)
	}
	b.WriteByte(')')
	return Term{S: b.String(), Sort: sort}
}

func intLit(n int64) Term {
	if n < 0 {
		// avoid overflow on MinInt64
		if n == -9223372036854775808 {
			return mk(SInt, "(- 9223372036854775808)")
		}
		return mk(SInt, fmt.Sprintf("(- %d)", -n))
	}
	return mk(SInt, fmt.Sprintf("%d", n))
}

func uintLit(n uint64) Term { return mk(SInt, fmt.Sprintf("%d", n)) }

var (
	tTrue  = mk(SBool, "true")
	tFalse = mk(SBool, "false")
)

func boolLit(b bool) Term {
	if b {
		return tTrue
	}
	return tFalse
}

func and(ts ...Term) Term {
	var xs []Term
	for _, t := range ts {
		if t.S == "true" {
			continue
		}
		if t.S == "false" {
			return tFalse
		}
		xs = append(xs, t)
	}
	switch len(xs) {
	case 0:
		return tTrue
	case 1:
		return xs[0]
	}
	return app(SBool, "and", xs...)
}

func or(ts ...Term) Term {
	var xs []Term
	for _, t := range ts {
		if t.S == "false" {
			continue
		}
		if t.S == "true" {
			return tTrue
		}
		xs = append(xs, t)
	}
	switch len(xs) {
	case 0:
		return tFalse
	case 1:
		return xs[0]
	}
	return app(SBool, "or", xs...)
}

func not(t Term) Term {
	switch t.S {
	case "true":
		return tFalse
	case "false":
		return tTrue
	}
	if strings.HasPrefix(t.S, "(not ") {
		return mk(SBool, t.S[5:len(t.S)-1])
	}
	return app(SBool, "not", t)
}

func implies(a, b Term) Term {
	if a.S == "true" {
		return b
	}
	if a.S == "false" || b.S == "true" {
		return tTrue
	}
	return app(SBool, "=>", a, b)
}

func eq(a, b Term) Term {
	if a.S == b.S {
		return tTrue
	}
	return app(SBool, "=", a, b)
}

func ite(c, a, b Term) Term {
	if c.S == "true" {
		return a
	}
	if c.S == "false" {
		return b
	}
	if a.S == b.S {
		return a
	}
	return app(a.Sort, "ite", c, a, b)
}

func sel(arr, idx Term, elemSort string) Term { return app(elemSort, "select", arr, idx) }
func sto(arr, idx, v Term) Term               { return app(arr.Sort, "store", arr, idx, v) }

func arraySort(k, v string) string { return "(Array " + k + " " + v + ")" }

// arrayElem returns the element sort of "(Array K V)".
func arrayParts(s string) (k, v string, ok bool) {
	if !strings.HasPrefix(s, "(Array ") {
		return "", "", false
	}
	body := s[7 : len(s)-1]
	// split at top-level space
	depth := 0
	for i := 0; i < len(body); i++ {
		switch body[i] {
		case '(':
			depth++
		case ')':
			depth--
		case ' ':
			if depth == 0 {
				return body[:i], body[i+1:], true
			}
		}
	}
	return "", "", false
}

func add(a, b Term) Term { return app(SInt, "+", a, b) }
func sub(a, b Term) Term { return app(SInt, "-", a, b) }
func mul(a, b Term) Term { return app(SInt, "*", a, b) }
func lt(a, b Term) Term  { return app(SBool, "<", a, b) }
func le(a, b Term) Term  { return app(SBool, "<=", a, b) }
func gt(a, b Term) Term  { return app(SBool, ">", a, b) }
func ge(a, b Term) Term  { return app(SBool, ">=", a, b) }

// Slice header accessors.
func slcBase(s Term) Term { return sBase(s) }
func slcOff(s Term) Term  { return sOff(s) }
func slcLen(s Term) Term  { return sLen(s) }
func slcCap(s Term) Term  { return sCap(s) }
func mkSlc(base, off, ln, cp Term) Term {
	return app(SSlc, "mk_slc", base, off, ln, cp)
}

var nilSlc = mk(SSlc, "(mk_slc 0 0 0 0)")
var nilVal = mk(SVal, "nil_val")

// smtName sanitises an arbitrary string into an SMT simple symbol. cvc5 rejects
// symbols that shadow theory symbols, so every generated name carries a prefix.
func smtName(prefix, s string) string {
	var b strings.Builder
	b.WriteString(prefix)
	for _, r := range s {
		switch {
		case r >= 'a' && r <= 'z', r >= 'A' && r <= 'Z', r >= '0' && r <= '9', r == '_', r == '.', r == '$', r == '!':
			b.WriteRune(r)
		case r == '*':
			b.WriteString("_p_")
		case r == '[':
			b.WriteString("_l_")
		case r == ']':
			b.WriteString("_r_")
		case r == '/':
			b.WriteString("_s_")
		case r == ' ':
			b.WriteString("_")
		default:
			fmt.Fprintf(&b, "_x%x_", r)
		}
	}
	return b.String()
}

// Decls collects declarations (sorts, datatypes, functions, constants, axioms)
// needed by the obligations of one function.
type Decls struct {
	order  []string          // declaration text in dependency order
	seen   map[string]bool   // by key
	consts map[string]string // const name -> sort
	axioms []string
	axseen map[string]bool
	used   map[string]bool // trusted-base items used
}

func newDecls() *Decls {
	return &Decls{seen: map[string]bool{}, consts: map[string]string{}, axseen: map[string]bool{}, used: map[string]bool{}}
}

func (d *Decls) add(key, text string) {
	if d.seen[key] {
		return
	}
	d.seen[key] = true
	d.order = append(d.order, text)
}

func (d *Decls) has(key string) bool { return d.seen[key] }

func (d *Decls) declConst(name, sort string) {
	if _, ok := d.consts[name]; ok {
		return
	}
	d.consts[name] = sort
	d.add("const:"+name, fmt.Sprintf("(declare-fun %s () %s)", name, sort))
}

func (d *Decls) declFun(name string, args []string, ret string) {
	d.add("fun:"+name, fmt.Sprintf("(declare-fun %s (%s) %s)", name, strings.Join(args, " "), ret))
}

func (d *Decls) axiom(key, text string) {
	if d.axseen[key] {
		return
	}
	d.axseen[key] = true
	d.axioms = append(d.axioms, text)
}

func (d *Decls) trust(item string) { d.used[item] = true }

func (d *Decls) trusted() []string {
	var xs []string
	for k := range d.used {
		xs = append(xs, k)
	}
	sort.Strings(xs)
	return xs
}

var freshCounter int

func freshName(hint string) string {
	freshCounter++
	return fmt.Sprintf("%s!%d", smtName("v_", hint), freshCounter)
}

// eix is the element index off+i of a slice, wrapped in an uninterpreted function so that
// quantifier triggers over slice elements contain no interpreted arithmetic (solvers
// normalise sums, which breaks syntactic matching of patterns such as (+ off j)).
func eix(off, i Term) Term {
	if off.S == "0" {
		return i
	}
	return app(SInt, "eix", off, i)
}
