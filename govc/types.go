package main

import (
	"fmt"
	"go/constant"
	"go/types"
	"os"
	"sort"
	"strings"

	"golang.org/x/tools/go/packages"
	"golang.org/x/tools/go/ssa"
	"golang.org/x/tools/go/ssa/ssautil"
)

const modPath = "github.com/osteele/liquid"

// World is the loaded program plus everything derived from it once per run.
type World struct {
	prog          *ssa.Program
	pkgs          []*packages.Package
	fns           map[string]*ssa.Function // short selector -> function
	allFns        []*ssa.Function
	typeIDs       map[string]int
	typeByID      map[int]types.Type
	cons          map[string]*Contract // short selector -> contract
	ifaces        map[string]*IfaceContract
	defines       map[string]*Define
	lemmas        []*Lemma
	mods          map[*ssa.Function]map[string]bool // inferred heap write sets
	repoDir       string
	specErrs      []string
	scratchD      *Decls
	typeInvs      map[string]*Clause
	globalInvs    map[string]*Clause
	rvUnder       types.Type
	computingMods bool
	initMode      bool // verifying a package initialiser: global invariants are goals, not assumptions
	immutable     map[string]bool
	macros        map[string]string
	filterNames   map[*ssa.Function]string
	fieldHeaps    map[string][]string
}

func shortName(s string) string {
	s = strings.ReplaceAll(s, modPath+"/", "")
	s = strings.ReplaceAll(s, modPath+".", "liquid.")
	s = strings.ReplaceAll(s, modPath, "liquid")
	return s
}

func loadWorld(dir string) (*World, error) {
	cfg := &packages.Config{Mode: packages.LoadAllSyntax, Dir: dir, BuildFlags: []string{"-tags=verif"}}
	for _, e := range os.Environ() {
		if strings.HasPrefix(e, "GOFLAGS=") || strings.HasPrefix(e, "GOPROXY=") || strings.HasPrefix(e, "GOSUMDB=") || strings.HasPrefix(e, "GOTOOLCHAIN=") {
			continue
		}
		cfg.Env = append(cfg.Env, e)
	}
	cfg.Env = append(cfg.Env, "GOFLAGS=-mod=mod", "GOPROXY=off", "GOSUMDB=off", "GOTOOLCHAIN=local")
	pkgs, err := packages.Load(cfg, "./...")
	if err != nil {
		return nil, err
	}
	var errs []string
	packages.Visit(pkgs, nil, func(p *packages.Package) {
		for _, e := range p.Errors {
			errs = append(errs, e.Error())
		}
	})
	if len(errs) > 0 {
		return nil, fmt.Errorf("package errors: %s", strings.Join(errs, "; "))
	}
	prog, _ := ssautil.AllPackages(pkgs, ssa.GlobalDebug|ssa.InstantiateGenerics)
	prog.Build()
	w := &World{prog: prog, pkgs: pkgs, fns: map[string]*ssa.Function{}, typeIDs: map[string]int{}, typeByID: map[int]types.Type{},
		cons: map[string]*Contract{}, ifaces: map[string]*IfaceContract{}, defines: map[string]*Define{}, repoDir: dir}
	for fn := range ssautil.AllFunctions(prog) {
		if fn.Pkg == nil && fn.Parent() == nil && fn.Synthetic == "" {
			continue
		}
		name := shortName(fn.String())
		if old, ok := w.fns[name]; ok && old != fn {
			// wrappers/thunks share names with their targets only when synthetic
			if fn.Synthetic != "" {
				continue
			}
		}
		if fn.Synthetic != "" && !strings.Contains(fn.Synthetic, "package initializer") {
			if _, ok := w.fns[name]; ok {
				continue
			}
		}
		w.fns[name] = fn
		w.allFns = append(w.allFns, fn)
	}
	sort.Slice(w.allFns, func(i, j int) bool { return w.allFns[i].String() < w.allFns[j].String() })
	w.resolveRegistrations()
	return w, nil
}

func (w *World) inRepo(fn *ssa.Function) bool {
	if fn == nil {
		return false
	}
	p := fn.Pkg
	for f := fn; p == nil && f != nil; f = f.Parent() {
		p = f.Pkg
	}
	if p == nil {
		// methods of instantiated / wrapper: use the receiver's package
		if fn.Signature.Recv() != nil {
			if n := namedOf(fn.Signature.Recv().Type()); n != nil && n.Obj().Pkg() != nil {
				return strings.HasPrefix(n.Obj().Pkg().Path(), modPath)
			}
		}
		return false
	}
	return strings.HasPrefix(p.Pkg.Path(), modPath)
}

func namedOf(t types.Type) *types.Named {
	t = types.Unalias(t)
	if p, ok := t.(*types.Pointer); ok {
		t = types.Unalias(p.Elem())
	}
	n, _ := t.(*types.Named)
	return n
}

// typeString is the canonical, package-qualified name of a type.
func typeString(t types.Type) string {
	return shortName(types.TypeString(t, func(p *types.Package) string { return p.Path() }))
}

// reflect.Kind numbering
var kindNames = []string{"Invalid", "Bool", "Int", "Int8", "Int16", "Int32", "Int64", "Uint", "Uint8", "Uint16", "Uint32", "Uint64", "Uintptr",
	"Float32", "Float64", "Complex64", "Complex128", "Array", "Chan", "Func", "Interface", "Map", "Ptr", "Slice", "String", "Struct", "UnsafePointer"}

func kindOfType(t types.Type) int {
	switch u := types.Unalias(t).Underlying().(type) {
	case *types.Basic:
		switch u.Kind() {
		case types.Bool, types.UntypedBool:
			return 1
		case types.Int, types.UntypedInt:
			return 2
		case types.Int8:
			return 3
		case types.Int16:
			return 4
		case types.Int32, types.UntypedRune:
			return 5
		case types.Int64:
			return 6
		case types.Uint:
			return 7
		case types.Uint8:
			return 8
		case types.Uint16:
			return 9
		case types.Uint32:
			return 10
		case types.Uint64:
			return 11
		case types.Uintptr:
			return 12
		case types.Float32:
			return 13
		case types.Float64, types.UntypedFloat:
			return 14
		case types.Complex64:
			return 15
		case types.Complex128:
			return 16
		case types.String, types.UntypedString:
			return 24
		case types.UnsafePointer:
			return 26
		}
	case *types.Array:
		return 17
	case *types.Chan:
		return 18
	case *types.Signature:
		return 19
	case *types.Interface:
		return 20
	case *types.Map:
		return 21
	case *types.Pointer:
		return 22
	case *types.Slice:
		return 23
	case *types.Struct:
		return 25
	}
	return 0
}

func isNamed(t types.Type, pkg, name string) bool {
	n, ok := types.Unalias(t).(*types.Named)
	if !ok || n.Obj().Pkg() == nil {
		return false
	}
	return n.Obj().Pkg().Path() == pkg && n.Obj().Name() == name
}

// isReflectValueAlias: a named type whose underlying type is reflect.Value's struct.
func (w *World) isReflectValueAlias(t types.Type) bool {
	n, ok := t.(*types.Named)
	if !ok {
		return false
	}
	if _, isStruct := n.Underlying().(*types.Struct); !isStruct {
		return false
	}
	if w.rvUnder == nil {
		if rv := w.lookupType("reflect.Value"); rv != nil {
			w.rvUnder = rv.Underlying()
		}
	}
	return w.rvUnder != nil && types.Identical(n.Underlying(), w.rvUnder)
}

// sortOf maps a Go type to an SMT sort, declaring what is needed.
func (w *World) sortOf(t types.Type, d *Decls) string {
	t = types.Unalias(t)
	switch {
	case isNamed(t, "reflect", "Value"):
		w.declRV(d)
		return "RV"
	case isNamed(t, "reflect", "Type"):
		return SInt
	case w.isReflectValueAlias(t):
		// type T reflect.Value (e.g. tags.sliceWrapper): same representation
		w.declRV(d)
		return "RV"
	case isNamed(t, "bytes", "Buffer"):
		return SStr
	case isNamed(t, "strings", "Builder"):
		return SStr
	case isNamed(t, "sync", "Once"):
		return SBool
	case isNamed(t, "time", "Time"):
		d.add("sort:Time", "(declare-sort Time 0)")
		return "Time"
	case isNamed(t, "regexp", "Regexp"):
		return SInt
	}
	switch u := t.Underlying().(type) {
	case *types.Basic:
		switch {
		case u.Info()&types.IsBoolean != 0:
			return SBool
		case u.Info()&types.IsInteger != 0:
			return SInt
		case u.Info()&types.IsFloat != 0:
			return SFlt
		case u.Info()&types.IsString != 0:
			return SStr
		case u.Kind() == types.UnsafePointer:
			return SInt
		case u.Kind() == types.UntypedNil:
			return SVal
		}
		d.add("sort:Opaque", "(declare-sort Opaque 0)")
		return "Opaque"
	case *types.Pointer:
		return SInt
	case *types.Slice:
		return SSlc
	case *types.Map:
		return SInt
	case *types.Chan:
		return SInt
	case *types.Interface:
		return SVal
	case *types.Signature:
		d.add("sort:Fn", "(declare-sort Fn 0)\n(declare-fun fn_nil () Fn)")
		return "Fn"
	case *types.Array:
		return arraySort(SInt, w.sortOf(u.Elem(), d))
	case *types.Struct:
		return w.structSort(t, u, d)
	case *types.Tuple:
		if u.Len() == 0 {
			return SUnit
		}
	}
	d.add("sort:Opaque", "(declare-sort Opaque 0)")
	return "Opaque"
}

func (w *World) declRV(d *Decls) {
	// reflect.Value: valid flag, wrapped dynamic value, and whether the Value's static
	// kind is Interface (an element of []any obtained by Index is an Interface-kinded Value).
	d.add("sort:RV", "(declare-datatypes ((RV 0)) (((mk_rv (rv_valid Bool) (rv_val Val) (rv_iface Bool)))))\n(define-fun rvkind ((v RV)) Int (ite (not (rv_valid v)) 0 (ite (rv_iface v) 20 (kindof (typeof (rv_val v))))))\n(declare-fun tconvertible (Int Int) Bool)\n(assert (forall ((t Int)) (! (tconvertible t t) :pattern ((tconvertible t t)))))\n(assert (forall ((a Int) (b Int)) (! (=> (and (= (kindof a) 24) (= (kindof b) 24)) (tconvertible a b)) :pattern ((tconvertible a b)))))")
}

func structKey(t types.Type) string {
	if n, ok := types.Unalias(t).(*types.Named); ok {
		return typeString(n)
	}
	return typeString(t)
}

func (w *World) structSort(t types.Type, st *types.Struct, d *Decls) string {
	name := smtName("S$", structKey(t))
	if d.has("sort:" + name) {
		return name
	}
	d.seen["sort:"+name] = true // mark early (no recursive structs by value in Go)
	var fields []string
	for i := 0; i < st.NumFields(); i++ {
		f := st.Field(i)
		fs := w.sortOf(f.Type(), d)
		fields = append(fields, fmt.Sprintf("(%s %s)", w.fieldSel(t, i), fs))
		registerSelector(w.fieldSel(t, i), w.structCtor(t), i)
	}
	text := fmt.Sprintf("(declare-datatypes ((%s 0)) (((%s %s))))", name, w.structCtor(t), strings.Join(fields, " "))
	if len(fields) == 0 {
		text = fmt.Sprintf("(declare-datatypes ((%s 0)) (((%s))))", name, w.structCtor(t))
	}
	d.order = append(d.order, text)
	return name
}

func (w *World) structCtor(t types.Type) string { return smtName("mk$", structKey(t)) }
func (w *World) fieldSel(t types.Type, i int) string {
	st := types.Unalias(t).Underlying().(*types.Struct)
	return smtName("f$", structKey(t)+"$"+st.Field(i).Name())
}

// typeID assigns a stable (per run) positive integer to a concrete Go type and
// declares its kind and comparability.
func (w *World) typeID(t types.Type, d *Decls) int {
	t = types.Unalias(t)
	key := typeString(t)
	id, ok := w.typeIDs[key]
	if !ok {
		id = len(w.typeIDs) + 1
		w.typeIDs[key] = id
		w.typeByID[id] = t
	}
	dk := fmt.Sprintf("tid:%d", id)
	if !d.has(dk) {
		cmp := "false"
		if types.Comparable(t) {
			cmp = "true"
		}
		deep := "false"
		if types.Comparable(t) && !holdsInterface(t, 0) {
			deep = "true"
		}
		d.add(dk, fmt.Sprintf("; type %d = %s\n(assert (= (kindof %d) %d))\n(assert (= (tcomparable %d) %s))\n(assert (= (tdeepcmp %d) %s))", id, key, id, kindOfType(t), id, cmp, id, deep))
		// structure of composite types (reflect.Type.Key / Elem)
		switch u := t.Underlying().(type) {
		case *types.Map:
			d.add(dk+":struct", fmt.Sprintf("(assert (= (tkey %d) %d))\n(assert (= (telem %d) %d))", id, w.typeID(u.Key(), d), id, w.typeID(u.Elem(), d)))
		case *types.Slice:
			d.add(dk+":struct", fmt.Sprintf("(assert (= (telem %d) %d))", id, w.typeID(u.Elem(), d)))
		case *types.Array:
			d.add(dk+":struct", fmt.Sprintf("(assert (= (telem %d) %d))", id, w.typeID(u.Elem(), d)))
		case *types.Pointer:
			d.add(dk+":struct", fmt.Sprintf("(assert (= (telem %d) %d))", id, w.typeID(u.Elem(), d)))
		}
	}
	return id
}

// box returns the Val holding x of concrete type t.
func (w *World) box(t types.Type, x Term, d *Decls) Term {
	id := w.typeID(t, d)
	w.declBox(t, id, d)
	return app(SVal, fmt.Sprintf("box$%d", id), x)
}

func (w *World) unbox(t types.Type, v Term, d *Decls) Term {
	id := w.typeID(t, d)
	w.declBox(t, id, d)
	return app(w.sortOf(t, d), fmt.Sprintf("unbox$%d", id), v)
}

func (w *World) declBox(t types.Type, id int, d *Decls) {
	key := fmt.Sprintf("box:%d", id)
	if d.has(key) {
		return
	}
	s := w.sortOf(t, d)
	var b strings.Builder
	fmt.Fprintf(&b, "(declare-fun box$%d (%s) Val)\n(declare-fun unbox$%d (Val) %s)\n", id, s, id, s)
	fmt.Fprintf(&b, "(assert (forall ((x %s)) (! (and (= (unbox$%d (box$%d x)) x) (= (typeof (box$%d x)) %d)) :pattern ((box$%d x)))))\n", s, id, id, id, id, id)
	fmt.Fprintf(&b, "(assert (forall ((v Val)) (! (=> (= (typeof v) %d) (= (box$%d (unbox$%d v)) v)) :pattern ((unbox$%d v)))))", id, id, id, id)
	// a struct whose fields are comparable in depth or interfaces: == on it can panic only
	// through the value one of those interface fields holds
	if st, ok := types.Unalias(t).Underlying().(*types.Struct); ok && types.Comparable(t) && holdsInterface(t, 0) && s != "RV" {
		var parts []string
		okAll := true
		for i := 0; i < st.NumFields(); i++ {
			ft := st.Field(i).Type()
			switch {
			case !holdsInterface(ft, 0):
			case w.sortOf(ft, d) == SVal:
				parts = append(parts, fmt.Sprintf("(vcomparable (%s x))", w.fieldSel(t, i)))
			default:
				okAll = false
			}
		}
		if okAll && len(parts) > 0 {
			fmt.Fprintf(&b, "\n(assert (forall ((x %s)) (! (= (vcomparable (box$%d x)) (and %s true)) :pattern ((box$%d x)))))", s, id, strings.Join(parts, " "), id)
		}
	}
	// generic payload links
	switch k := kindOfType(t); {
	case k >= 2 && k <= 12:
		fmt.Fprintf(&b, "\n(assert (forall ((x Int)) (! (= (pl_int (box$%d x)) x) :pattern ((box$%d x)))))", id, id)
	case k == 1:
		fmt.Fprintf(&b, "\n(assert (forall ((x Bool)) (! (= (pl_bool (box$%d x)) x) :pattern ((box$%d x)))))", id, id)
	case k == 24:
		fmt.Fprintf(&b, "\n(assert (forall ((x Str)) (! (and (= (pl_str (box$%d x)) x) (= (pl_len (box$%d x)) (str_len x))) :pattern ((box$%d x)))))", id, id, id)
	case k == 13 || k == 14:
		fmt.Fprintf(&b, "\n(assert (forall ((x Flt)) (! (= (pl_flt (box$%d x)) x) :pattern ((box$%d x)))))", id, id)
	case k == 23:
		fmt.Fprintf(&b, "\n(assert (forall ((x Slc)) (! (= (pl_len (box$%d x)) (s_len x)) :pattern ((box$%d x)))))", id, id)
	case k == 22:
		fmt.Fprintf(&b, "\n(assert (forall ((x Int)) (! (= (pl_ptr (box$%d x)) x) :pattern ((box$%d x)))))", id, id)
	}
	d.add(key, b.String())
}

// rangeAssume returns the range fact for a value of integer type t.
func rangeAssume(t types.Type, x Term) Term {
	b, ok := types.Unalias(t).Underlying().(*types.Basic)
	if !ok || b.Info()&types.IsInteger == 0 {
		return tTrue
	}
	switch b.Kind() {
	case types.Int, types.Int64:
		return app(SBool, "in_i64", x)
	case types.Int8:
		return and(le(intLit(-128), x), le(x, intLit(127)))
	case types.Int16:
		return and(le(intLit(-32768), x), le(x, intLit(32767)))
	case types.Int32:
		return and(le(intLit(-2147483648), x), le(x, intLit(2147483647)))
	case types.Uint8:
		return and(le(intLit(0), x), le(x, intLit(255)))
	case types.Uint16:
		return and(le(intLit(0), x), le(x, intLit(65535)))
	case types.Uint32:
		return and(le(intLit(0), x), le(x, intLit(4294967295)))
	case types.Uint, types.Uint64, types.Uintptr:
		return and(le(intLit(0), x), le(x, mk(SInt, "18446744073709551615")))
	}
	return tTrue
}

// resolveRegistrations gives structural names to functions registered by name:
// `filter "slice"` is the function value passed to AddFilter("slice", .) inside
// filters.AddStandardFilters (robust against reordering of the closures).
func (w *World) resolveRegistrations() {
	fn := w.fns["filters.AddStandardFilters"]
	if fn == nil {
		return
	}
	for _, b := range fn.Blocks {
		for _, in := range b.Instrs {
			call, ok := in.(*ssa.Call)
			if !ok || !call.Call.IsInvoke() || call.Call.Method.Name() != "AddFilter" || len(call.Call.Args) != 2 {
				continue
			}
			c, ok := call.Call.Args[0].(*ssa.Const)
			if !ok || c.Value == nil {
				continue
			}
			name := constant.StringVal(c.Value)
			mi, ok := call.Call.Args[1].(*ssa.MakeInterface)
			if !ok {
				continue
			}
			var target *ssa.Function
			switch x := mi.X.(type) {
			case *ssa.Function:
				target = x
			case *ssa.MakeClosure:
				target, _ = x.Fn.(*ssa.Function)
			}
			if target != nil {
				w.fns[fmt.Sprintf("filter %q", name)] = target
				if w.filterNames == nil {
					w.filterNames = map[*ssa.Function]string{}
				}
				w.filterNames[target] = name
			}
		}
	}
}

// holdsInterface: a value of type t can hold an interface value directly (struct field, array
// element, or t itself), i.e. == on it may reach a dynamic type.
func holdsInterface(t types.Type, depth int) bool {
	if depth > 8 {
		return true
	}
	switch u := types.Unalias(t).Underlying().(type) {
	case *types.Interface:
		return true
	case *types.Struct:
		for i := 0; i < u.NumFields(); i++ {
			if holdsInterface(u.Field(i).Type(), depth+1) {
				return true
			}
		}
	case *types.Array:
		return holdsInterface(u.Elem(), depth+1)
	}
	return false
}
