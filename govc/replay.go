package main

// tryReplay attempts to turn a solver counterexample into a concrete failing
// input on the real code. Returns true when a failing input was demonstrated.
func tryReplay(verif string, ob *Obligation, rp map[string]any) bool {
	return false
}
