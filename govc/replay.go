package main

// Replay: turning a failed obligation into a failing input of the REAL function.
//
// For functions whose parameters can be concretised from a solver model (integers, booleans,
// short strings, interface / reflect.Value arguments holding those, structs of those) a failed
// obligation is replayed in three steps:
//   1. the obligation's query (path condition and negated goal; the quantifier-free relaxation
//      when the full query was not decided) is re-run with get-value requests for the terms
//      that describe the inputs, giving concrete arguments;
//   2. a generated in-package Go test (injected with `go test -overlay`, nothing is written
//      under /repo) calls the real function with those arguments and prints what it returned,
//      or that it panicked;
//   3. safety obligations are confirmed by the observed panic; postconditions are confirmed by
//      the solver: the ensures clause, with the arguments and the OBSERVED results pinned, must
//      be unsatisfiable.
// Only a confirmed replay drops the "no-failing-input-found" suffix.

import (
	"encoding/json"
	"fmt"
	"go/types"
	"math/big"
	"os"
	"os/exec"
	"path/filepath"
	"regexp"
	"sort"
	"strconv"
	"strings"
	"time"

	"golang.org/x/tools/go/ssa"
)

type replayParam struct {
	Name string
	Ty   types.Type
	T    Term
}

type ReplayInfo struct {
	Sel      string
	PkgPath  string
	PkgName  string
	PkgDir   string
	Recv     *replayParam
	RecvPtr  bool
	FuncName string
	Params   []replayParam
	Results  []replayParam // T = constant standing for the observed result
	EntryPC  []Term
	Clauses  map[string]Term
	Decls    *Decls
	Panics   []string
	world    *World
	ifaceP   map[string]types.Type
}

// replayable: can values of this type be read off a model and written as a Go literal?
func (w *World) replayable(t types.Type, d *Decls, depth int) bool {
	if depth > 3 {
		return false
	}
	t = types.Unalias(t)
	switch w.sortOf(t, d) {
	case SInt:
		_, basic := t.Underlying().(*types.Basic)
		return basic
	case SBool, SStr:
		_, basic := t.Underlying().(*types.Basic)
		return basic
	case SVal:
		if it, ok := t.Underlying().(*types.Interface); ok && it.NumMethods() == 0 {
			return true
		}
		return false
	case "RV":
		return isNamed(t, "reflect", "Value")
	}
	if st, ok := t.Underlying().(*types.Struct); ok {
		if _, named := t.(*types.Named); !named {
			return false
		}
		for i := 0; i < st.NumFields(); i++ {
			if !w.replayable(st.Field(i).Type(), d, depth+1) {
				return false
			}
		}
		return true
	}
	return false
}

// prepareReplay is called by verifyFunc once the entry state exists.
func (ex *Exec) prepareReplay(st *State, fn *ssa.Function, args []Value) *ReplayInfo {
	if fn.Parent() != nil || fn.Synthetic != "" || fn.Pkg == nil || len(fn.FreeVars) > 0 {
		return nil
	}
	ri := &ReplayInfo{Sel: ex.sel, PkgPath: fn.Pkg.Pkg.Path(), PkgName: fn.Pkg.Pkg.Name(), FuncName: fn.Name(), Clauses: map[string]Term{}, Decls: ex.d, world: ex.w}
	ri.PkgDir = filepath.Join(ex.w.repoDir, strings.TrimPrefix(strings.TrimPrefix(ri.PkgPath, modPath), "/"))
	params := fn.Params
	for i, p := range params {
		t, ok := args[i].(Term)
		if !ok {
			return nil
		}
		pt := p.Type()
		rp := replayParam{Name: p.Name(), Ty: pt, T: t}
		if i == 0 && fn.Signature.Recv() != nil {
			if ptr, isPtr := types.Unalias(pt).Underlying().(*types.Pointer); isPtr {
				_ = ptr
				return nil // pointer receivers need heap concretisation: not replayed
			}
			if !ex.w.replayable(pt, ex.d, 0) {
				return nil
			}
			ri.Recv = &rp
			continue
		}
		if !ex.w.replayable(pt, ex.d, 0) {
			return nil
		}
		ri.Params = append(ri.Params, rp)
	}
	res := fn.Signature.Results()
	for i := 0; i < res.Len(); i++ {
		rt := res.At(i).Type()
		srt := ex.w.sortOf(rt, ex.d)
		if srt != SInt && srt != SBool && srt != SStr {
			return nil
		}
		if _, basic := types.Unalias(rt).Underlying().(*types.Basic); !basic {
			return nil
		}
		name := fmt.Sprintf("replay_res%d", i)
		ex.d.declConst(name, srt)
		ri.Results = append(ri.Results, replayParam{Name: res.At(i).Name(), Ty: rt, T: mk(srt, name)})
	}
	ri.EntryPC = append([]Term(nil), st.pc...)
	if ex.con != nil {
		ri.Panics = ex.con.Panics
		c := &SpecCtx{ex: ex, st: st, old: st, binds: map[string]TT{}, bound: map[string]string{}, pkg: pkgOf(fn)}
		for n, v := range ex.entryBinds {
			c.binds[n] = v
		}
		for i, r := range ri.Results {
			tt := TT{T: r.T, Ty: r.Ty}
			c.binds[fmt.Sprintf("result%d", i)] = tt
			if i == 0 {
				c.binds["result"] = tt
			}
			if r.Name != "" && r.Name != "_" {
				c.binds[r.Name] = tt
			}
		}
		for i := range ex.con.Ensures {
			cl := &ex.con.Ensures[i]
			func() {
				defer func() { recover() }()
				c.clause = cl
				saved := ex.specErrors
				ex.specErrors = map[string]bool{}
				g := c.Formula(cl.Text)
				ex.specErrors = saved
				ri.Clauses[cl.Label] = g
			}()
		}
	}
	return ri
}

// ---- descriptors ---------------------------------------------------------------------------

type descr struct {
	term string // SMT term requested with get-value
	key  string
}

const replayStrMax = 12

func strDescr(base, key string, out *[]descr) {
	*out = append(*out, descr{"(str_len " + base + ")", key + ".len"})
	for i := 0; i < replayStrMax; i++ {
		*out = append(*out, descr{fmt.Sprintf("(str_at %s %d)", base, i), fmt.Sprintf("%s.at%d", key, i)})
	}
}

func valDescr(base, key string, out *[]descr) {
	*out = append(*out, descr{"(kindof (typeof " + base + "))", key + ".kind"}, descr{"(pl_int " + base + ")", key + ".int"}, descr{"(pl_bool " + base + ")", key + ".bool"})
	strDescr("(pl_str "+base+")", key+".str", out)
}

func (ri *ReplayInfo) describe(p replayParam, key string, term string, out *[]descr) {
	w := ri.world
	t := types.Unalias(p.Ty)
	switch w.sortOf(t, ri.Decls) {
	case SInt, SBool:
		*out = append(*out, descr{term, key})
		return
	case SStr:
		strDescr(term, key, out)
		return
	case SVal:
		valDescr(term, key, out)
		return
	case "RV":
		*out = append(*out, descr{"(rv_valid " + term + ")", key + ".valid"}, descr{"(rv_iface " + term + ")", key + ".iface"})
		valDescr("(rv_val "+term+")", key+".val", out)
		return
	}
	if st, ok := t.Underlying().(*types.Struct); ok {
		for i := 0; i < st.NumFields(); i++ {
			f := st.Field(i)
			ri.describe(replayParam{Name: f.Name(), Ty: f.Type()}, key+"."+f.Name(), "("+w.fieldSel(t, i)+" "+term+")", out)
		}
	}
}

// ---- concretisation ------------------------------------------------------------------------

type concrete struct {
	goExpr string
	pins   []string // SMT assertions fixing the described terms
}

func goStringLit(bs []byte) string {
	var b strings.Builder
	b.WriteByte('"')
	for _, c := range bs {
		if c >= 32 && c < 127 && c != '"' && c != '\\' {
			b.WriteByte(c)
		} else {
			fmt.Fprintf(&b, "\\x%02x", c)
		}
	}
	b.WriteByte('"')
	return b.String()
}

func smtInt(n *big.Int) string {
	if n.Sign() < 0 {
		return "(- " + new(big.Int).Neg(n).String() + ")"
	}
	return n.String()
}

func parseBig(s string) (*big.Int, bool) {
	n, ok := new(big.Int).SetString(strings.TrimSpace(s), 10)
	return n, ok
}

func (ri *ReplayInfo) strFrom(vals map[string]string, key, term string) (string, []string, bool) {
	n, err := strconv.ParseInt(vals[key+".len"], 10, 64)
	if err != nil || n < 0 || n > replayStrMax {
		return "", nil, false
	}
	bs := make([]byte, n)
	pins := []string{fmt.Sprintf("(= (str_len %s) %d)", term, n)}
	for i := int64(0); i < n; i++ {
		c, err := strconv.ParseInt(vals[fmt.Sprintf("%s.at%d", key, i)], 10, 64)
		if err != nil || c < 0 || c > 255 {
			c = 'a'
		}
		bs[i] = byte(c)
		pins = append(pins, fmt.Sprintf("(= (str_at %s %d) %d)", term, i, c))
	}
	return goStringLit(bs), pins, true
}

var kindGoType = map[int64]string{1: "bool", 2: "int", 3: "int8", 4: "int16", 5: "int32", 6: "int64", 7: "uint", 8: "uint8", 9: "uint16", 10: "uint32", 11: "uint64", 12: "uintptr", 24: "string"}

func intFits(goType string, n *big.Int) bool {
	rng := func(lo, hi string) bool {
		l, _ := parseBig(lo)
		h, _ := parseBig(hi)
		return n.Cmp(l) >= 0 && n.Cmp(h) <= 0
	}
	switch goType {
	case "int8":
		return rng("-128", "127")
	case "int16":
		return rng("-32768", "32767")
	case "int32", "rune":
		return rng("-2147483648", "2147483647")
	case "uint8", "byte":
		return rng("0", "255")
	case "uint16":
		return rng("0", "65535")
	case "uint32":
		return rng("0", "4294967295")
	case "uint", "uint64", "uintptr":
		return rng("0", "18446744073709551615")
	}
	return rng("-9223372036854775808", "9223372036854775807")
}

func (ri *ReplayInfo) valFrom(vals map[string]string, key, term string) (string, []string, bool) {
	k, err := strconv.ParseInt(vals[key+".kind"], 10, 64)
	if err != nil {
		return "", nil, false
	}
	if k == 0 {
		return "nil", []string{"(= " + term + " nil_val)"}, true
	}
	gt, ok := kindGoType[k]
	if !ok {
		return "", nil, false
	}
	pins := []string{fmt.Sprintf("(= (kindof (typeof %s)) %d)", term, k)}
	switch {
	case k == 1:
		b := vals[key+".bool"] == "true"
		pins = append(pins, fmt.Sprintf("(= (pl_bool %s) %v)", term, b))
		return fmt.Sprintf("any(%v)", b), pins, true
	case k == 24:
		s, sp, ok := ri.strFrom(vals, key+".str", "(pl_str "+term+")")
		if !ok {
			return "", nil, false
		}
		return "any(" + s + ")", append(pins, sp...), true
	default:
		n, ok := parseBig(vals[key+".int"])
		if !ok || !intFits(gt, n) {
			return "", nil, false
		}
		pins = append(pins, fmt.Sprintf("(= (pl_int %s) %s)", term, smtInt(n)))
		return fmt.Sprintf("any(%s(%s))", gt, n.String()), pins, true
	}
}

func (ri *ReplayInfo) concretise(p replayParam, key, term string, vals map[string]string, qual types.Qualifier) (concrete, bool) {
	w := ri.world
	t := types.Unalias(p.Ty)
	ts := types.TypeString(t, qual)
	switch w.sortOf(t, ri.Decls) {
	case SInt:
		n, ok := parseBig(vals[key])
		if !ok {
			return concrete{}, false
		}
		if b, ok := t.Underlying().(*types.Basic); ok && !intFits(b.Name(), n) {
			return concrete{}, false
		}
		return concrete{fmt.Sprintf("%s(%s)", ts, n.String()), []string{fmt.Sprintf("(= %s %s)", term, smtInt(n))}}, true
	case SBool:
		b := vals[key] == "true"
		return concrete{fmt.Sprintf("%s(%v)", ts, b), []string{fmt.Sprintf("(= %s %v)", term, b)}}, true
	case SStr:
		s, pins, ok := ri.strFrom(vals, key, term)
		return concrete{ts + "(" + s + ")", pins}, ok
	case SVal:
		s, pins, ok := ri.valFrom(vals, key, term)
		return concrete{s, pins}, ok
	case "RV":
		if vals[key+".iface"] == "true" {
			return concrete{}, false
		}
		if vals[key+".valid"] != "true" {
			return concrete{"reflect.Value{}", []string{"(not (rv_valid " + term + "))"}}, true
		}
		s, pins, ok := ri.valFrom(vals, key+".val", "(rv_val "+term+")")
		if !ok || s == "nil" {
			return concrete{}, false
		}
		pins = append(pins, "(rv_valid "+term+")", "(not (rv_iface "+term+"))")
		return concrete{"reflect.ValueOf(" + s + ")", pins}, true
	}
	if st, ok := t.Underlying().(*types.Struct); ok {
		var fields []string
		var pins []string
		for i := 0; i < st.NumFields(); i++ {
			f := st.Field(i)
			c, ok := ri.concretise(replayParam{Name: f.Name(), Ty: f.Type()}, key+"."+f.Name(), "("+w.fieldSel(t, i)+" "+term+")", vals, qual)
			if !ok {
				return concrete{}, false
			}
			fields = append(fields, f.Name()+": "+c.goExpr)
			pins = append(pins, c.pins...)
		}
		return concrete{ts + "{" + strings.Join(fields, ", ") + "}", pins}, true
	}
	return concrete{}, false
}

// ---- driver --------------------------------------------------------------------------------

var getValueLine = regexp.MustCompile(`^\(\((.*)\)\)$`)

func parseValue(line, term string) (string, bool) {
	m := getValueLine.FindStringSubmatch(strings.TrimSpace(line))
	if m == nil || !strings.HasPrefix(m[1], term+" ") {
		return "", false
	}
	v := strings.TrimSpace(m[1][len(term)+1:])
	if strings.HasPrefix(v, "(- ") {
		v = "-" + strings.TrimSuffix(strings.TrimPrefix(v, "(- "), ")")
	}
	return v, true
}

var replayBudget = 8

// tryReplay attempts to turn a solver counterexample into a concrete failing input on the real
// code. Returns true when a failing input was demonstrated.
func tryReplay(verif string, ob *Obligation, rp map[string]any) bool {
	ri := ob.Replay
	if ri == nil || ob.Cover {
		return false
	}
	switch ob.Kind {
	case "post", "bounds", "nil", "assert", "div", "cmp", "make", "panic", "pre":
	default:
		return false
	}
	if replayBudget <= 0 {
		rp["replay"] = "not attempted (replay budget of this run used up)"
		return false
	}
	replayBudget--
	log := []string{}
	defer func() { rp["replay_log"] = log }()

	// 1. concrete inputs
	var ds []descr
	all := ri.Params
	if ri.Recv != nil {
		all = append([]replayParam{*ri.Recv}, all...)
	}
	for _, p := range all {
		ri.describe(p, p.Name, p.T.S, &ds)
	}
	query := ob.smtText(true)
	if ob.Status != "sat" {
		query = stripQuantified(query)
	}
	query = strings.Replace(query, "(get-model)", "", -1)
	var b strings.Builder
	b.WriteString(query)
	if !strings.Contains(query, "(check-sat)") {
		b.WriteString("\n(check-sat)\n")
	}
	for _, d := range ds {
		fmt.Fprintf(&b, "(get-value (%s))\n", d.term)
	}
	dir, err := os.MkdirTemp("", "govc-replay-")
	if err != nil {
		return false
	}
	defer os.RemoveAll(dir)
	q1 := filepath.Join(dir, "inputs.smt2")
	os.WriteFile(q1, []byte(finalizeSMT(b.String())), 0o644)
	st, out, _ := runSolver(solvers[0], q1, 10*time.Second)
	if st != "sat" {
		log = append(log, "no model for the inputs: solver said "+st)
		return false
	}
	vals := map[string]string{}
	lines := strings.Split(out, "\n")
	for _, d := range ds {
		for _, l := range lines {
			if v, ok := parseValue(l, d.term); ok {
				vals[d.key] = v
				break
			}
		}
	}
	imports := map[string]string{"fmt": "fmt", "testing": "testing", "reflect": "reflect"}
	qual := func(p *types.Package) string {
		if p.Path() == ri.PkgPath {
			return ""
		}
		imports[p.Path()] = p.Name()
		return p.Name()
	}
	var goArgs []string
	var pins []string
	recvExpr := ""
	for _, p := range all {
		c, ok := ri.concretise(p, p.Name, p.T.S, vals, qual)
		if !ok {
			var seen []string
			for k, v := range vals {
				if strings.HasPrefix(k, p.Name) && !strings.Contains(k, ".at") {
					seen = append(seen, k+"="+v)
				}
			}
			sort.Strings(seen)
			log = append(log, "argument "+p.Name+" could not be concretised from the model: "+strings.Join(seen, " "))
			return false
		}
		pins = append(pins, c.pins...)
		if ri.Recv != nil && p.Name == ri.Recv.Name && recvExpr == "" {
			recvExpr = c.goExpr
			continue
		}
		goArgs = append(goArgs, c.goExpr)
	}
	call := ri.FuncName + "(" + strings.Join(goArgs, ", ") + ")"
	if ri.Recv != nil {
		call = "(" + recvExpr + ")." + call
	}
	rp["replay_call"] = call

	// 2. run the real function
	var src strings.Builder
	fmt.Fprintf(&src, "package %s\n\nimport (\n", ri.PkgName)
	var ips []string
	for p := range imports {
		ips = append(ips, p)
	}
	sort.Strings(ips)
	for _, p := range ips {
		fmt.Fprintf(&src, "\t%q\n", p)
	}
	src.WriteString(")\n\nvar _ = reflect.ValueOf\n\nfunc TestGovcReplay(t *testing.T) {\n\tdefer func() {\n\t\tif r := recover(); r != nil {\n\t\t\tfmt.Printf(\"GOVC-PANIC %T %v\\n\", r, r)\n\t\t}\n\t}()\n")
	var lhs []string
	for i := range ri.Results {
		lhs = append(lhs, fmt.Sprintf("r%d", i))
	}
	if len(lhs) > 0 {
		fmt.Fprintf(&src, "\t%s := %s\n", strings.Join(lhs, ", "), call)
		for i := range ri.Results {
			fmt.Fprintf(&src, "\tfmt.Printf(\"GOVC-RESULT %d %%q\\n\", fmt.Sprint(r%d))\n", i, i)
		}
	} else {
		fmt.Fprintf(&src, "\t%s\n\tfmt.Println(\"GOVC-RETURNED\")\n", call)
	}
	src.WriteString("}\n")
	testPath := filepath.Join(ri.PkgDir, "zz_govc_replay_test.go")
	realPath := filepath.Join(dir, "replay_test.go")
	os.WriteFile(realPath, []byte(src.String()), 0o644)
	ov, _ := json.Marshal(map[string]any{"Replace": map[string]string{testPath: realPath}})
	ovPath := filepath.Join(dir, "overlay.json")
	os.WriteFile(ovPath, ov, 0o644)
	cmd := exec.Command("go", "test", "-overlay", ovPath, "-vet=off", "-v", "-count=1", "-timeout", "60s", "-run", "^TestGovcReplay$", ".")
	cmd.Dir = ri.PkgDir
	cmd.Env = append(os.Environ(), "GOFLAGS=-mod=mod", "GOPROXY=off", "GOSUMDB=off", "GOTOOLCHAIN=local")
	outB, _ := cmd.CombinedOutput()
	rp["replay_test"] = src.String()
	rp["replay_output"] = firstLines(string(outB), 12)
	panicked, observed := "", map[int]string{}
	for _, l := range strings.Split(string(outB), "\n") {
		if strings.HasPrefix(l, "GOVC-PANIC ") {
			panicked = strings.TrimPrefix(l, "GOVC-PANIC ")
		}
		if strings.HasPrefix(l, "GOVC-RESULT ") {
			fs := strings.SplitN(strings.TrimPrefix(l, "GOVC-RESULT "), " ", 2)
			if len(fs) == 2 {
				i, _ := strconv.Atoi(fs[0])
				if s, err := strconv.Unquote(fs[1]); err == nil {
					observed[i] = s
				}
			}
		}
	}
	if panicked != "" {
		for _, p := range ri.Panics {
			if strings.HasPrefix(panicked, p+" ") {
				log = append(log, "the function raised the declared panic "+p)
				return false
			}
		}
		log = append(log, "REAL CODE PANICS on "+call+": "+panicked)
		rp["replay_verdict"] = "confirmed: the real function panics on this input"
		return true
	}
	if ob.Kind != "post" {
		log = append(log, "the real function did not panic on the model's input (the model may violate an axiom or a modelling assumption)")
		return false
	}
	// 3. postcondition: pinned inputs + observed results must refute the clause
	clause, ok := ri.Clauses[ob.Label]
	if !ok || len(observed) != len(ri.Results) {
		log = append(log, "no replay template for clause "+ob.Label)
		return false
	}
	for i, r := range ri.Results {
		switch r.T.Sort {
		case SInt:
			n, ok := parseBig(observed[i])
			if !ok {
				return false
			}
			pins = append(pins, fmt.Sprintf("(= %s %s)", r.T.S, smtInt(n)))
		case SBool:
			pins = append(pins, fmt.Sprintf("(= %s %s)", r.T.S, observed[i]))
		case SStr:
			bs := []byte(observed[i])
			pins = append(pins, fmt.Sprintf("(= (str_len %s) %d)", r.T.S, len(bs)))
			for k, c := range bs {
				if k < 64 {
					pins = append(pins, fmt.Sprintf("(= (str_at %s %d) %d)", r.T.S, k, c))
				}
			}
		}
	}
	chk := &Obligation{Name: ob.Name + "/replay", Kind: "replay", Func: ob.Func, Decls: ri.Decls, Goal: tFalse, world: ob.world, ifacePreds: ob.ifacePreds}
	chk.PC = append(chk.PC, ri.EntryPC...)
	for _, p := range pins {
		chk.PC = append(chk.PC, mk(SBool, p))
	}
	// guard: the pinned inputs and results must themselves be consistent with the entry facts,
	// otherwise "unsat" below would say nothing about the clause
	q0 := filepath.Join(dir, "pins.smt2")
	os.WriteFile(q0, []byte(finalizeSMT(chk.smtText(false))), 0o644)
	if st0, _, _ := runSolver(solvers[0], q0, 5*time.Second); st0 == "unsat" {
		log = append(log, "the concretised inputs/results contradict the entry assumptions: replay inconclusive")
		return false
	}
	chk.PC = append(chk.PC, clause)
	q2 := filepath.Join(dir, "clause.smt2")
	os.WriteFile(q2, []byte(finalizeSMT(chk.smtText(false))), 0o644)
	st2, _, _ := runSolver(solvers[0], q2, 10*time.Second)
	if st2 != "unsat" {
		st2, _, _ = runSolver(solvers[1], q2, 10*time.Second)
	}
	log = append(log, fmt.Sprintf("observed results %v; clause %q with inputs and observed results pinned: %s", observed, ob.Label, st2))
	if st2 == "unsat" {
		rp["replay_verdict"] = fmt.Sprintf("confirmed: %s returned %v, which contradicts ensures %s", call, observed, ob.Label)
		return true
	}
	return false
}

func finalizeSMT(text string) string { return text }
