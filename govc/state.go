package main

import (
	"fmt"
	"go/types"
	"sort"
	"strings"

	"golang.org/x/tools/go/ssa"
)

// Value is an executor-level value bound to an SSA value:
// Term | *PtrV | TupleV | *ClosureV | *IterV.
type Value interface{}

type TupleV []Value

// PtrV is a statically tracked lvalue.
type PtrV struct {
	Cell    *ssa.Alloc  // frame-local register cell root
	CellFr  int         // frame depth owning the cell
	Global  *ssa.Global // package-level variable root
	GArr    bool        // element Idx of the package-level array Global (read only)
	Base    Term        // heap object reference (Int) when Cell == nil && Global == nil && !IsElem
	IsElem  bool        // slice element root
	Slc     Term        // slice header (IsElem)
	Idx     Term        // element index (IsElem)
	Root    types.Type  // type of the root object (pointee)
	Path    []int       // field indices from the root
	FreeVar bool        // the root is a variable captured by the closure under verification
	Opaque  bool        // a pointer of unknown origin to a non-struct value: it may designate a
	//                     struct field, so reads are arbitrary and writes forget every heap that can hold the type
}

type ClosureV struct {
	Fn       *ssa.Function
	Bindings []Value
	T        Term
}

type IterV struct {
	Map      Term
	MapT     *types.Map
	IsString bool
	Str      Term
	Key      string // ghost key of visited set / position
}

type deferRec struct {
	call *ssa.Defer
	fn   Value
	args []Value
}

type pendingFrame struct {
	from, to int
	alloc    Term
}

type loopEntry struct {
	measure Term
	hasMeas bool
	pcLen   int
	// cross-check of the inferred write set: state right after the havoc at the loop head
	headHeaps map[string]Term
	headCells map[*ssa.Alloc]string
	headAlloc Term
	mods      map[string]bool
	modCells  map[*ssa.Alloc]bool
	modGhosts map[string]bool
	headGhost map[string]string
}

type Frame struct {
	fn      *ssa.Function
	env     map[ssa.Value]Value
	cells   map[*ssa.Alloc]Value
	defers  []*deferRec
	inLoop  map[*ssa.BasicBlock]*loopEntry
	freeVar []Value
	k       func(st *State, results []Value)
	depth   int
	params  []Value
	recvd   bool
}

func (f *Frame) clone() *Frame {
	g := &Frame{fn: f.fn, k: f.k, depth: f.depth, freeVar: f.freeVar, params: f.params}
	g.env = make(map[ssa.Value]Value, len(f.env)+8)
	for k, v := range f.env {
		g.env[k] = v
	}
	g.cells = make(map[*ssa.Alloc]Value, len(f.cells))
	for k, v := range f.cells {
		g.cells[k] = v
	}
	g.defers = append([]*deferRec(nil), f.defers...)
	g.inLoop = make(map[*ssa.BasicBlock]*loopEntry, len(f.inLoop))
	for k, v := range f.inLoop {
		g.inLoop[k] = v
	}
	return g
}

// State is one symbolic execution path.
type State struct {
	frames  []*Frame
	pc      []Term
	heaps   map[string]Term // current version of each heap
	hsorts  map[string]string
	hver    map[string]int
	pending map[string][]pendingFrame
	epoch   int
	globals map[string]Term
	ghosts  map[string]Term
	gsorts  map[string]string
	alloc   Term // allocation watermark: every existing reference r satisfies 0 < r < alloc
	alloc0  Term // watermark at entry of the function under verification
	panicOK map[string]bool
	trace   []string
}

func (s *State) top() *Frame { return s.frames[len(s.frames)-1] }

func (s *State) clone() *State {
	t := &State{epoch: s.epoch, alloc: s.alloc, alloc0: s.alloc0, panicOK: s.panicOK}
	t.frames = make([]*Frame, len(s.frames))
	for i, f := range s.frames {
		t.frames[i] = f.clone()
	}
	t.pc = append(make([]Term, 0, len(s.pc)+16), s.pc...)
	t.heaps = make(map[string]Term, len(s.heaps))
	for k, v := range s.heaps {
		t.heaps[k] = v
	}
	t.hsorts = s.hsorts // shared, append-only
	t.hver = make(map[string]int, len(s.hver))
	for k, v := range s.hver {
		t.hver[k] = v
	}
	t.pending = make(map[string][]pendingFrame, len(s.pending))
	for k, v := range s.pending {
		t.pending[k] = append([]pendingFrame(nil), v...)
	}
	t.globals = make(map[string]Term, len(s.globals))
	for k, v := range s.globals {
		t.globals[k] = v
	}
	t.ghosts = make(map[string]Term, len(s.ghosts))
	for k, v := range s.ghosts {
		t.ghosts[k] = v
	}
	t.gsorts = s.gsorts
	t.trace = append([]string(nil), s.trace...)
	return t
}

// snapshot copies only the heap-like parts (for old()).
func (s *State) snapshot() *State {
	t := &State{epoch: s.epoch, alloc: s.alloc, alloc0: s.alloc0, hsorts: s.hsorts, gsorts: s.gsorts}
	t.heaps = make(map[string]Term, len(s.heaps))
	for k, v := range s.heaps {
		t.heaps[k] = v
	}
	t.hver = make(map[string]int, len(s.hver))
	for k, v := range s.hver {
		t.hver[k] = v
	}
	t.pending = map[string][]pendingFrame{}
	t.pc = s.pc[:len(s.pc):len(s.pc)]
	t.globals = make(map[string]Term, len(s.globals))
	for k, v := range s.globals {
		t.globals[k] = v
	}
	t.ghosts = make(map[string]Term, len(s.ghosts))
	for k, v := range s.ghosts {
		t.ghosts[k] = v
	}
	t.frames = s.frames
	return t
}

func (s *State) assume(t Term) {
	if t.S == "true" {
		return
	}
	s.pc = append(s.pc, t)
}

// Obligation is one verification condition.
type Obligation struct {
	Name    string
	Kind    string
	Label   string
	Func    string
	Props   []string
	PC      []Term
	Goal    Term
	Pos     string
	Descr   string
	Decls   *Decls
	Trusted []string
	// results
	Status     string // unsat (discharged) | sat | unknown | timeout | error
	Backend    string
	Seconds    float64
	Model      string
	Output     string
	File       string
	Cover      bool   // a reachability (vacuity) query: expected sat
	Group      string // covers of one group are alternatives (vacuous only if all are refuted)
	Seq        int
	ifacePreds map[string]types.Type
	world      *World
	Replay     *ReplayInfo // how to replay a counterexample of this obligation on the real code (nil: not replayable)
}

// heap returns the current version of heap `name` (declaring it on first use).
func (ex *Exec) heapConst(name, sort string, epoch, ver int) Term {
	cn := fmt.Sprintf("%s@%d.%d", smtName("H_", name), epoch, ver)
	ex.d.declConst(cn, sort)
	return mk(sort, cn)
}

func (ex *Exec) heap(st *State, name, sort string) Term {
	if t, ok := st.heaps[name]; ok {
		return t
	}
	if strings.Contains(sort, "RV") {
		ex.w.declRV(ex.d)
	}
	if strings.Contains(sort, "Fn") {
		ex.d.add("sort:Fn", "(declare-sort Fn 0)\n(declare-fun fn_nil () Fn)")
	}
	st.hsorts[name] = sort
	t := ex.heapConst(name, sort, st.epoch, st.hver[name])
	st.heaps[name] = t
	// frame axioms recorded while the heap was still untouched on this path
	for _, pf := range st.pending[name] {
		o, n := ex.heapConst(name, sort, st.epoch, pf.from), ex.heapConst(name, sort, st.epoch, pf.to)
		if ks, _, ok := arrayParts(sort); ok && ks == SInt {
			st.assume(mk(SBool, fmt.Sprintf("(forall ((r Int)) (! (=> (< r %s) (= (select %s r) (select %s r))) :pattern ((select %s r))))", pf.alloc.S, n.S, o.S, n.S)))
		}
	}
	delete(st.pending, name)
	return t
}

func (ex *Exec) setHeap(st *State, name string, t Term) {
	st.hsorts[name] = t.Sort
	st.heaps[name] = t
}

// havocHeap replaces a heap by a fresh version. If allocOnly, objects allocated
// before the call keep their contents (frame axiom over the watermark).
func (ex *Exec) havocHeap(st *State, name string, allocOnly bool) {
	old, ok := st.heaps[name]
	srt := st.hsorts[name]
	if !ok {
		// untouched on this path: bump the version so that a later first use (and old())
		// see different constants; remember the allocation-only frame for that moment
		from := st.hver[name]
		st.hver[name] = from + 1
		if allocOnly {
			st.pending[name] = append(st.pending[name], pendingFrame{from, from + 1, st.alloc})
		} else {
			delete(st.pending, name)
		}
		return
	}
	cn := freshName("H_" + name)
	ex.d.declConst(cn, srt)
	nw := mk(srt, cn)
	st.heaps[name] = nw
	if allocOnly {
		_, es, _ := arrayParts(srt)
		ks, _, _ := arrayParts(srt)
		if ks == SInt {
			st.assume(mk(SBool, fmt.Sprintf("(forall ((r Int)) (! (=> (< r %s) (= (select %s r) (select %s r))) :pattern ((select %s r))))", st.alloc.S, nw.S, old.S, nw.S)))
		}
		_ = es
	}
}

// havocAll forgets every heap and global (an unknown callee may have written anything).
func (ex *Exec) havocAll(st *State) {
	st.epoch++
	st.pending = map[string][]pendingFrame{}
	names := make([]string, 0, len(st.heaps))
	for n := range st.heaps {
		names = append(names, n)
	}
	sort.Strings(names)
	for _, n := range names {
		if strings.HasPrefix(n, "W$") || strings.HasPrefix(n, "G!") {
			ex.havocHeap(st, n, false)
			continue
		}
		delete(st.heaps, n)
	}
	for n := range st.globals {
		delete(st.globals, n)
	}
	ex.bumpAlloc(st)
}

func (ex *Exec) bumpAlloc(st *State) {
	cn := freshName("alloc")
	ex.d.declConst(cn, SInt)
	nw := mk(SInt, cn)
	st.assume(ge(nw, st.alloc))
	st.alloc = nw
}

// newRef allocates a fresh reference.
func (ex *Exec) newRef(st *State, hint string) Term {
	cn := freshName("ref_" + hint)
	ex.d.declConst(cn, SInt)
	r := mk(SInt, cn)
	st.assume(eq(r, st.alloc))
	st.assume(gt(r, intLit(0)))
	an := freshName("alloc")
	ex.d.declConst(an, SInt)
	na := mk(SInt, an)
	st.assume(eq(na, add(r, intLit(1))))
	st.alloc = na
	return r
}

func (ex *Exec) fresh(hint, sort string) Term {
	cn := freshName(hint)
	ex.d.declConst(cn, sort)
	return mk(sort, cn)
}

// freshOfType makes an unconstrained value of Go type t with its type facts assumed.
func (ex *Exec) freshOfType(st *State, hint string, t types.Type) Term {
	s := ex.w.sortOf(t, ex.d)
	v := ex.fresh(hint, s)
	ex.assumeTypeFacts(st, t, v)
	return v
}

// assumeTypeFacts adds facts every value of Go type t satisfies.
func (ex *Exec) assumeTypeFacts(st *State, t types.Type, v Term) {
	t = types.Unalias(t)
	switch u := t.Underlying().(type) {
	case *types.Basic:
		if u.Info()&types.IsInteger != 0 {
			st.assume(rangeAssume(t, v))
		}
	case *types.Pointer, *types.Map, *types.Chan:
		if v.Sort == SInt {
			st.assume(and(le(intLit(0), v), lt(v, st.alloc)))
		}
	case *types.Slice:
		st.assume(and(le(intLit(0), slcOff(v)), le(intLit(0), slcLen(v)), le(slcLen(v), slcCap(v)), le(intLit(0), slcBase(v)), lt(slcBase(v), st.alloc),
			le(slcCap(v), mk(SInt, "2305843009213693952")), // no slice holds more than 2^61 elements (address-space bound)
			implies(eq(slcBase(v), intLit(0)), eq(slcCap(v), intLit(0)))))
	case *types.Interface:
		if v.Sort != SVal {
			return // reflect.Type and similar interfaces are modelled by other sorts
		}
		// static interface type: the dynamic type implements it (or nil)
		if u.NumMethods() > 0 {
			st.assume(or(eq(v, nilVal), ex.implementsPred(t, app(SInt, "typeof", v))))
		}
		// a pointer held in an existing interface value was allocated earlier
		st.assume(lt(app(SInt, "pl_ptr", v), st.alloc))
		// lengths of actual values are non-negative (not an axiom: ill-formed headers exist in the sort)
		st.assume(ge(app(SInt, "pl_len", v), intLit(0)))
		ex.assumeValRanges(st, v)
	case *types.Struct:
		if v.Sort == "RV" {
			rv := app(SVal, "rv_val", v)
			st.assume(ge(app(SInt, "pl_len", rv), intLit(0)))
			ex.assumeValRanges(st, rv)
			return
		}
		if v.Sort == SStr || v.Sort == SBool || v.Sort == "Time" {
			return
		}
		for i := 0; i < u.NumFields(); i++ {
			ft := u.Field(i).Type()
			switch types.Unalias(ft).Underlying().(type) {
			case *types.Basic, *types.Slice, *types.Pointer, *types.Map, *types.Interface, *types.Struct:
				fs := ex.w.sortOf(ft, ex.d)
				ex.assumeTypeFacts(st, ft, app(fs, ex.w.fieldSel(t, i), v))
			}
		}
	}
}

// implementsPred: dynamic type id tid implements interface type it.
func (ex *Exec) implementsPred(it types.Type, tid Term) Term {
	name := smtName("impl$", typeString(it))
	if !ex.d.has("fun:" + name) {
		ex.d.declFun(name, []string{SInt}, SBool)
		ex.ifacePreds[name] = it
	}
	return app(SBool, name, tid)
}

// zero value of a Go type.
func (ex *Exec) zero(t types.Type) Term {
	s := ex.w.sortOf(t, ex.d)
	switch s {
	case SInt:
		return intLit(0)
	case SBool:
		return tFalse
	case SStr:
		return mk(SStr, "str_empty")
	case SFlt:
		return mk(SFlt, "f_zero")
	case SVal:
		return nilVal
	case SSlc:
		return nilSlc
	case "Fn":
		return mk("Fn", "fn_nil")
	case "RV":
		return mk("RV", "(mk_rv false nil_val false)")
	case SUnit:
		return mk(SUnit, "unit")
	}
	if st, ok := types.Unalias(t).Underlying().(*types.Struct); ok && strings.HasPrefix(s, "S$") {
		var fs []Term
		for i := 0; i < st.NumFields(); i++ {
			fs = append(fs, ex.zero(st.Field(i).Type()))
		}
		return app(s, ex.w.structCtor(t), fs...)
	}
	if k, v, ok := arrayParts(s); ok {
		if at, ok2 := types.Unalias(t).Underlying().(*types.Array); ok2 {
			return ex.constArr(s, ex.zero(at.Elem()))
		}
		_ = k
		_ = v
	}
	// opaque: some fixed constant
	cn := smtName("zero$", s)
	ex.d.declConst(cn, s)
	return mk(s, cn)
}

// heapSortByName reconstructs the sort of a heap from its name.
func (ex *Exec) heapSortByName(name string) string {
	switch {
	case strings.HasPrefix(name, "S$"):
		es := strings.TrimPrefix(name, "S$")
		return arraySort(SInt, arraySort(SInt, es))
	case strings.HasPrefix(name, "P$"):
		return arraySort(SInt, strings.TrimPrefix(name, "P$"))
	case name == "W$total":
		return arraySort(SVal, SStr)
	case strings.HasPrefix(name, "M$has$"), strings.HasPrefix(name, "M$val$"):
		parts := strings.SplitN(name[6:], "$", 2)
		if len(parts) == 2 {
			if strings.HasPrefix(name, "M$has$") {
				return arraySort(SInt, arraySort(parts[0], SBool))
			}
			return arraySort(SInt, arraySort(parts[0], parts[1]))
		}
	case strings.HasPrefix(name, "F$"):
		// F$<struct key>$<field>
		rest := name[2:]
		i := strings.LastIndex(rest, "$")
		if i < 0 {
			return ""
		}
		t := ex.w.lookupType(rest[:i])
		if t == nil {
			return ""
		}
		if st := structOf(t); st != nil {
			for k := 0; k < st.NumFields(); k++ {
				if st.Field(k).Name() == rest[i+1:] {
					return arraySort(SInt, ex.w.sortOf(st.Field(k).Type(), ex.d))
				}
			}
		}
	}
	return ""
}

// constArr: the array whose every element is v. cvc5 accepts (as const ...) only for
// value elements, so other element sorts get a named array with a defining axiom.
func (ex *Exec) constArr(arrSort string, v Term) Term {
	switch v.S {
	case "0", "false", "true":
		return mk(arrSort, fmt.Sprintf("((as const %s) %s)", arrSort, v.S))
	}
	ks, _, _ := arrayParts(arrSort)
	name := smtName("carr$", arrSort+"$"+v.S)
	if len(name) > 120 {
		name = fmt.Sprintf("carr$%d", len(ex.d.consts))
	}
	ex.d.declConst(name, arrSort)
	ex.d.axiom("carr:"+name, fmt.Sprintf("(assert (forall ((i %s)) (! (= (select %s i) %s) :pattern ((select %s i)))))", ks, name, v.S, name))
	return mk(arrSort, name)
}

// assumeValRanges: the integer payload of an actual dynamic value lies in the range of
// its kind (facts about real values, deliberately not axioms over the whole Val sort).
func (ex *Exec) assumeValRanges(st *State, v Term) {
	k := app(SInt, "kindof", app(SInt, "typeof", v))
	p := app(SInt, "pl_int", v)
	st.assume(implies(and(ge(k, intLit(7)), le(k, intLit(12))), and(ge(p, intLit(0)), le(p, mk(SInt, "18446744073709551615")))))
	st.assume(implies(and(ge(k, intLit(2)), le(k, intLit(6))), app(SBool, "in_i64", p)))
	for _, r := range []struct {
		kind   int64
		lo, hi string
	}{{3, "(- 128)", "127"}, {4, "(- 32768)", "32767"}, {5, "(- 2147483648)", "2147483647"}, {8, "0", "255"}, {9, "0", "65535"}, {10, "0", "4294967295"}} {
		st.assume(implies(eq(k, intLit(r.kind)), and(le(mk(SInt, r.lo), p), le(p, mk(SInt, r.hi)))))
	}
}
