package main

// State merging at the join point of an if-diamond: both branches are explored up to
// their immediate post-dominator; if each reaches it with at most one state, the two
// states are merged (ite on phis, cells, heaps, ghosts; path conditions guarded by the
// branch condition) and execution continues once. This keeps the number of paths linear
// in the number of independent conditionals.

import (
	"sort"
	"strings"

	"golang.org/x/tools/go/ssa"
)

// ipdom computes immediate post-dominators (nil = exit) with the standard iterative
// algorithm on the reverse CFG.
func (ex *Exec) ipdom(fn *ssa.Function) map[*ssa.BasicBlock]*ssa.BasicBlock {
	if ex.ipdoms == nil {
		ex.ipdoms = map[*ssa.Function]map[*ssa.BasicBlock]*ssa.BasicBlock{}
	}
	if m, ok := ex.ipdoms[fn]; ok {
		return m
	}
	n := len(fn.Blocks)
	// post-dominator sets as bitsets over block indices; virtual exit = n
	pd := make([][]bool, n+1)
	for i := range pd {
		pd[i] = make([]bool, n+1)
		for j := range pd[i] {
			pd[i][j] = true
		}
	}
	for j := range pd[n] {
		pd[n][j] = j == n
	}
	succs := func(b *ssa.BasicBlock) []int {
		if len(b.Succs) == 0 {
			return []int{n}
		}
		var out []int
		for _, s := range b.Succs {
			out = append(out, s.Index)
		}
		return out
	}
	for changed := true; changed; {
		changed = false
		for i := n - 1; i >= 0; i-- {
			b := fn.Blocks[i]
			nw := make([]bool, n+1)
			first := true
			for _, s := range succs(b) {
				if first {
					copy(nw, pd[s])
					first = false
				} else {
					for k := range nw {
						nw[k] = nw[k] && pd[s][k]
					}
				}
			}
			nw[i] = true
			for k := range nw {
				if nw[k] != pd[i][k] {
					changed = true
				}
			}
			pd[i] = nw
		}
	}
	m := map[*ssa.BasicBlock]*ssa.BasicBlock{}
	for i := 0; i < n; i++ {
		// immediate post-dominator: the strict post-dominator that is post-dominated by all others
		var cands []int
		for k := 0; k < n; k++ {
			if k != i && pd[i][k] {
				cands = append(cands, k)
			}
		}
		var best *ssa.BasicBlock
		for _, c := range cands {
			ok := true
			for _, o := range cands {
				if o != c && !pd[c][o] {
					ok = false
				}
			}
			if ok {
				best = fn.Blocks[c]
			}
		}
		m[fn.Blocks[i]] = best
	}
	ex.ipdoms[fn] = m
	return m
}

// tryMerge explores both branches of the If ending block b up to the join block and
// continues from there with a merged state. Returns false if merging does not apply
// (the caller then splits paths as usual; nothing has been executed).
func (ex *Exec) tryMerge(st *State, b *ssa.BasicBlock, c Term) bool {
	fr := st.top()
	join := ex.ipdom(fr.fn)[b]
	if join == nil || join == b {
		return false
	}
	li := ex.loops(fr.fn)
	// the join must not be a loop header, and must lie in the same loops as b
	if li.byHeader[join] != nil {
		return false
	}
	for _, l := range li.loops {
		if l.body[b] != l.body[join] {
			return false
		}
	}
	// region size guard: blocks reachable from b before join
	region := map[*ssa.BasicBlock]bool{}
	var stack []*ssa.BasicBlock
	for _, s := range b.Succs {
		stack = append(stack, s)
	}
	for len(stack) > 0 {
		x := stack[len(stack)-1]
		stack = stack[:len(stack)-1]
		if x == join || region[x] {
			continue
		}
		region[x] = true
		if li.byHeader[x] != nil {
			return false // loops inside the region: keep path splitting
		}
		if len(region) > 12 {
			return false
		}
		for _, s := range x.Succs {
			stack = append(stack, s)
		}
	}
	sp := &stopPoint{block: join, depth: len(st.frames), fn: fr.fn}
	ex.stops = append(ex.stops, sp)
	basePC := len(st.pc)
	st2 := st.clone()
	st2.assume(c)
	ex.guard(func() { ex.enterBlock(st2, b.Succs[0], b) })
	nThen := len(sp.arrivals)
	st3 := st.clone()
	st3.assume(not(c))
	ex.guard(func() { ex.enterBlock(st3, b.Succs[1], b) })
	ex.stops = ex.stops[:len(ex.stops)-1]
	arr := sp.arrivals
	if len(arr) == 0 {
		return true // every path ended inside the region
	}
	if len(arr) == 1 {
		ex.enterBlock(arr[0].st, join, arr[0].from)
		return true
	}
	if len(arr) == 2 && nThen == 1 {
		if m := ex.mergeStates(arr[0], arr[1], join, c, basePC); m != nil {
			ex.execFrom(m, join, 0)
			return true
		}
	}
	// cannot merge: continue each arrival separately
	for _, a := range arr {
		a := a
		ex.guard(func() { ex.enterBlock(a.st, join, a.from) })
	}
	return true
}

// mergeStates merges two states arriving at join (a under cond c, b under !c).
func (ex *Exec) mergeStates(a, b arrival, join *ssa.BasicBlock, c Term, basePC int) *State {
	sa, sb := a.st, b.st
	if len(sa.frames) != len(sb.frames) || sa.epoch != sb.epoch {
		return nil
	}
	fa, fb := sa.top(), sb.top()
	if len(fa.defers) != len(fb.defers) {
		return nil
	}
	// evaluate the join's phis on each edge
	phiA := map[*ssa.Phi]Value{}
	phiB := map[*ssa.Phi]Value{}
	for _, in := range join.Instrs {
		phi, ok := in.(*ssa.Phi)
		if !ok {
			continue
		}
		for i, p := range join.Preds {
			if p == a.from {
				phiA[phi] = ex.valIn(sa, phi.Edges[i])
			}
			if p == b.from {
				phiB[phi] = ex.valIn(sb, phi.Edges[i])
			}
		}
	}
	var defs []Term
	name := func(hint string, t Term) Term {
		// name merged values so that terms (and instantiation patterns) stay small
		if len(t.S) < 60 || !strings.HasPrefix(t.S, "(ite ") {
			return t
		}
		v := ex.fresh("m_"+hint, t.Sort)
		defs = append(defs, eq(v, t))
		return v
	}
	mergeVal := func(x, y Value) (Value, bool) {
		tx, okx := x.(Term)
		ty, oky := y.(Term)
		if okx && oky {
			if tx.Sort != ty.Sort {
				return nil, false
			}
			return name("v", ite(c, tx, ty)), true
		}
		if x == y {
			return x, true
		}
		if px, ok := x.(*PtrV); ok {
			if py, ok := y.(*PtrV); ok && ptrEqual(px, py) {
				return px, true
			}
		}
		if cx, ok := x.(*ClosureV); ok {
			if cy, ok := y.(*ClosureV); ok && cx.Fn == cy.Fn && cx.T.S == cy.T.S {
				return cx, true
			}
		}
		return nil, false
	}
	m := sa.clone()
	mf := m.top()
	for phi, va := range phiA {
		vb, ok := phiB[phi]
		if !ok {
			return nil
		}
		v, ok := mergeVal(va, vb)
		if !ok {
			return nil
		}
		mf.env[phi] = v
	}
	// cells of every frame
	for i := range m.frames {
		for al, va := range sa.frames[i].cells {
			vb, ok := sb.frames[i].cells[al]
			if !ok {
				continue
			}
			v, ok := mergeVal(va, vb)
			if !ok {
				return nil
			}
			m.frames[i].cells[al] = v
		}
		for al, vb := range sb.frames[i].cells {
			if _, ok := sa.frames[i].cells[al]; !ok {
				m.frames[i].cells[al] = vb
			}
		}
		// values defined in only one branch never flow past the join (SSA), keep a's env
	}
	// heaps
	names := map[string]bool{}
	for n := range sa.heaps {
		names[n] = true
	}
	for n := range sb.heaps {
		names[n] = true
	}
	var hn []string
	for n := range names {
		hn = append(hn, n)
	}
	sort.Strings(hn)
	for _, n := range hn {
		srt := sa.hsorts[n]
		ha := ex.heap(sa, n, srt)
		hb := ex.heap(sb, n, srt)
		m.heaps[n] = name("h", ite(c, ha, hb))
		if sa.hver[n] < sb.hver[n] {
			m.hver[n] = sb.hver[n]
		}
	}
	for n, vb := range sb.hver {
		if m.hver[n] < vb {
			m.hver[n] = vb
		}
	}
	if len(sa.pending) > 0 || len(sb.pending) > 0 {
		// frame axioms recorded for untouched heaps: materialise conservatively by dropping them
		m.pending = map[string][]pendingFrame{}
	}
	// globals
	for n, va := range sa.globals {
		if vb, ok := sb.globals[n]; ok {
			m.globals[n] = name("g", ite(c, va, vb))
		} else {
			delete(m.globals, n)
		}
	}
	// ghosts
	for n, va := range sa.ghosts {
		if vb, ok := sb.ghosts[n]; ok {
			m.ghosts[n] = name("gh", ite(c, va, vb))
		}
	}
	for n, vb := range sb.ghosts {
		if _, ok := sa.ghosts[n]; !ok {
			m.ghosts[n] = vb
		}
	}
	m.alloc = name("alloc", ite(c, sa.alloc, sb.alloc))
	// path condition: common prefix, then each branch's additions guarded by its condition
	m.pc = append([]Term(nil), sa.pc[:basePC]...)
	if ex2 := and(sa.pc[basePC:]...); ex2.S != "true" {
		m.pc = append(m.pc, implies(c, ex2))
	}
	if ex3 := and(sb.pc[basePC:]...); ex3.S != "true" {
		m.pc = append(m.pc, implies(not(c), ex3))
	}
	m.pc = append(m.pc, defs...)
	return m
}

func ptrEqual(a, b *PtrV) bool {
	if a.Cell != b.Cell || a.CellFr != b.CellFr || a.Global != b.Global || a.IsElem != b.IsElem || a.FreeVar != b.FreeVar || len(a.Path) != len(b.Path) {
		return false
	}
	for i := range a.Path {
		if a.Path[i] != b.Path[i] {
			return false
		}
	}
	return a.Base.S == b.Base.S && a.Slc.S == b.Slc.S && a.Idx.S == b.Idx.S
}

// valIn evaluates an SSA value in the top frame of st (like val, without aborting on consts).
func (ex *Exec) valIn(st *State, v ssa.Value) Value {
	return ex.val(st, v)
}
