package main

// Contract files: comment-only Go files /repo/<pkg>/zz_contracts_verif.go (build tag
// verif) holding `//@` lines, and /verif/contracts/*.spec holding trusted contracts
// of external (stdlib) functions in the same language.

import (
	"bufio"
	"fmt"
	"os"
	"path/filepath"
	"regexp"
	"sort"
	"strconv"
	"strings"
)

type Clause struct {
	Label   string
	Text    string
	File    string
	Line    int
	Assumed bool // a postcondition that is assumed, not proved (keyword `assumes-post`); listed in evidence
}

type LoopSpec struct {
	Invariants []Clause
	Decreases  *Clause
}

type GhostDecl struct {
	Name string
	Sort string
	Init string
}

// AtSpec attaches ghost code or an assertion to a call site.
type AtSpec struct {
	Callee  string // method or function name (last component)
	Ordinal int    // 1-based among calls of that name in source order; 0 = all
	Assert  *Clause
	Ghost   string // ghost variable assigned
	Expr    string
	Before  bool
	Line    int
	File    string
}

type Contract struct {
	Sel         string
	File        string
	Line        int
	Requires    []Clause
	Assumes     []Clause // input well-formedness assumed at entry, not demanded of callers
	Ensures     []Clause
	Panics      []string
	Recovers    []string
	HasPanics   bool
	AssumesImpl string // stated reason why effects beyond the implemented interface method are tolerated (listed in evidence)
	Assigns     []string
	HasAssign   bool
	Loops       map[int]*LoopSpec
	Ghosts      []GhostDecl
	Ats         []AtSpec
	Pure        bool
	Trusted     bool
	Inline      bool
	Overflow    bool
	Fresh       bool // result is freshly allocated
	Props       []string
	Expect      string   // expected signature string (pin for ordinal-keyed closures)
	Names       []string // parameter names override (external functions)
	Reads       bool     // pure function may read the heap (re-evaluated per state)
	Unverified  bool     // in-repo contract whose body is not (yet) verified: an assumption
	Implements  []string // function-type contracts this function must also satisfy
	NoCapture   bool     // never writes a captured variable or a package-level variable
	External    bool
}

type IfaceMethod struct {
	Name string
	Contract
}

type IfaceContract struct {
	Sel     string
	Methods map[string]*IfaceMethod
}

type Define struct {
	Name   string
	Params []string // names
	Sorts  []string // SMT sorts
	Ret    string
	Body   string
	File   string
	Line   int
	Rec    bool
}

type Lemma struct {
	Name  string
	Props []string
	Vars  []string // "name Sort"
	Text  string
	File  string
	Line  int
}

var labelRe = regexp.MustCompile(`^([A-Za-z_][A-Za-z0-9_]*):\s+(.*)$`)

func splitLabel(s string) (string, string) {
	if m := labelRe.FindStringSubmatch(s); m != nil {
		return m[1], m[2]
	}
	return "", s
}

func (w *World) loadContracts(extra ...string) error {
	var files []string
	filepath.Walk(w.repoDir, func(p string, info os.FileInfo, err error) error {
		if err == nil && !info.IsDir() && filepath.Base(p) == "zz_contracts_verif.go" {
			files = append(files, p)
		}
		return nil
	})
	sort.Strings(files)
	files = append(files, extra...)
	for _, f := range files {
		if err := w.parseContractFile(f); err != nil {
			return err
		}
	}
	return nil
}

func (w *World) parseContractFile(path string) error {
	fh, err := os.Open(path)
	if err != nil {
		return err
	}
	defer fh.Close()
	external := strings.HasSuffix(path, ".spec")
	sc := bufio.NewScanner(fh)
	sc.Buffer(make([]byte, 1<<20), 1<<20)
	var cur *Contract
	var curIface *IfaceContract
	var lastText *string
	lineNo := 0
	fail := func(format string, a ...any) error {
		return fmt.Errorf("%s:%d: %s", path, lineNo, fmt.Sprintf(format, a...))
	}
	for sc.Scan() {
		lineNo++
		line := strings.TrimSpace(sc.Text())
		if !strings.HasPrefix(line, "//@") {
			continue
		}
		line = strings.TrimSpace(line[3:])
		if line == "" || strings.HasPrefix(line, "#") {
			continue
		}
		if strings.HasPrefix(line, "|") {
			if lastText == nil {
				return fail("continuation without clause")
			}
			*lastText += " " + strings.TrimSpace(line[1:])
			continue
		}
		lastText = nil
		kw, rest := line, ""
		if i := strings.IndexAny(line, " \t"); i >= 0 {
			kw, rest = line[:i], strings.TrimSpace(line[i+1:])
		}
		switch kw {
		case "func":
			cur = &Contract{Sel: rest, File: path, Line: lineNo, Loops: map[int]*LoopSpec{}, External: external, Trusted: external}
			curIface = nil
			if _, dup := w.cons[rest]; dup {
				return fail("duplicate contract for %s", rest)
			}
			w.cons[rest] = cur
		case "interface":
			curIface = &IfaceContract{Sel: rest, Methods: map[string]*IfaceMethod{}}
			w.ifaces[rest] = curIface
			cur = nil
		case "method":
			if curIface == nil {
				return fail("method outside interface")
			}
			fs := strings.Fields(rest)
			m := &IfaceMethod{Name: fs[0]}
			m.Contract = Contract{Sel: curIface.Sel + "." + fs[0], File: path, Line: lineNo, Loops: map[int]*LoopSpec{}}
			for _, f := range fs[1:] {
				switch f {
				case "pure":
					m.Pure = true
				case "reads":
					m.Reads = true
				}
			}
			curIface.Methods[fs[0]] = m
			cur = &m.Contract
		case "assumes":
			// an ASSUMPTION about the function's inputs that callers are not asked to prove
			// (well-formedness of data built outside the contracts); listed in evidence
			if cur == nil {
				return fail("%s outside func", kw)
			}
			lbl, txt := splitLabel(rest)
			cur.Assumes = append(cur.Assumes, Clause{Label: lbl, Text: txt, File: path, Line: lineNo})
			lastText = &cur.Assumes[len(cur.Assumes)-1].Text
		case "requires", "ensures", "assumes-post":
			if cur == nil {
				return fail("%s outside func", kw)
			}
			lbl, txt := splitLabel(rest)
			c := Clause{Label: lbl, Text: txt, File: path, Line: lineNo, Assumed: kw == "assumes-post"}
			if kw == "requires" {
				cur.Requires = append(cur.Requires, c)
				lastText = &cur.Requires[len(cur.Requires)-1].Text
			} else {
				cur.Ensures = append(cur.Ensures, c)
				lastText = &cur.Ensures[len(cur.Ensures)-1].Text
			}
		case "recovers":
			// ASSUMPTION read off the code: a deferred recover() in this function turns panics
			// with values of these types into a returned error (the model does not execute
			// recover); callee panics of these types are therefore not propagated
			for _, p := range strings.Split(rest, ",") {
				if p = strings.TrimSpace(p); p != "" {
					cur.Recovers = append(cur.Recovers, p)
				}
			}
		case "assumes-impl":
			cur.AssumesImpl = rest
		case "panics":
			cur.HasPanics = true
			for _, p := range strings.Split(rest, ",") {
				if p = strings.TrimSpace(p); p != "" && p != "nothing" {
					cur.Panics = append(cur.Panics, p)
				}
			}
		case "assigns":
			cur.HasAssign = true
			for _, p := range strings.Split(rest, ",") {
				if p = strings.TrimSpace(p); p != "" && p != "nothing" {
					cur.Assigns = append(cur.Assigns, p)
				}
			}
		case "loop":
			fs := strings.SplitN(rest, " ", 3)
			if len(fs) < 3 {
				return fail("bad loop clause")
			}
			k, err := strconv.Atoi(fs[0])
			if err != nil {
				return fail("bad loop ordinal")
			}
			ls := cur.Loops[k]
			if ls == nil {
				ls = &LoopSpec{}
				cur.Loops[k] = ls
			}
			lbl, txt := splitLabel(fs[2])
			switch fs[1] {
			case "invariant":
				ls.Invariants = append(ls.Invariants, Clause{Label: lbl, Text: txt, File: path, Line: lineNo})
				lastText = &ls.Invariants[len(ls.Invariants)-1].Text
			case "decreases":
				ls.Decreases = &Clause{Label: lbl, Text: txt, File: path, Line: lineNo}
				lastText = &ls.Decreases.Text
			default:
				return fail("bad loop clause kind %q", fs[1])
			}
		case "ghost":
			// ghost name Sort = init
			parts := strings.SplitN(rest, "=", 2)
			fs := strings.SplitN(strings.TrimSpace(parts[0]), " ", 2)
			if len(fs) != 2 || len(parts) != 2 {
				return fail("bad ghost declaration")
			}
			cur.Ghosts = append(cur.Ghosts, GhostDecl{Name: fs[0], Sort: strings.TrimSpace(fs[1]), Init: strings.TrimSpace(parts[1])})
		case "at":
			// at call Name #k [before]: x = expr   |   at call Name #k assert label: expr
			a, err := parseAt(rest, path, lineNo)
			if err != nil {
				return fail("%v", err)
			}
			cur.Ats = append(cur.Ats, *a)
		case "pure":
			cur.Pure = true
		case "reads":
			cur.Reads = true
		case "trusted":
			cur.Trusted = true
		case "nocapture":
			cur.NoCapture = true
		case "implements":
			cur.Implements = append(cur.Implements, rest)
		case "unverified":
			cur.Unverified = true
			cur.Trusted = true
		case "inline":
			cur.Inline = true
		case "overflow":
			cur.Overflow = true
		case "fresh":
			cur.Fresh = true
		case "props":
			cur.Props = append(cur.Props, strings.Fields(rest)...)
		case "expect":
			cur.Expect = rest
		case "names":
			cur.Names = strings.Fields(rest)
		case "macro":
			i := strings.Index(rest, "=")
			if i < 0 {
				return fail("bad macro")
			}
			if w.macros == nil {
				w.macros = map[string]string{}
			}
			w.macros[strings.TrimSpace(rest[:i])] = strings.TrimSpace(rest[i+1:])
		case "immutable":
			if w.immutable == nil {
				w.immutable = map[string]bool{}
			}
			w.immutable[rest] = true
		case "globalinv":
			i := strings.Index(rest, ":")
			if i < 0 {
				return fail("bad globalinv")
			}
			if w.globalInvs == nil {
				w.globalInvs = map[string]*Clause{}
			}
			w.globalInvs[strings.TrimSpace(rest[:i])] = &Clause{Label: "globalinv", Text: strings.TrimSpace(rest[i+1:]), File: path, Line: lineNo}
		case "typeinv":
			i := strings.Index(rest, ":")
			if i < 0 {
				return fail("bad typeinv")
			}
			if w.typeInvs == nil {
				w.typeInvs = map[string]*Clause{}
			}
			cl := &Clause{Label: "typeinv", Text: strings.TrimSpace(rest[i+1:]), File: path, Line: lineNo}
			w.typeInvs[strings.TrimSpace(rest[:i])] = cl
			lastText = &cl.Text
		case "define":
			d, err := parseDefine(rest)
			if err != nil {
				return fail("%v", err)
			}
			d.File, d.Line = path, lineNo
			w.defines[d.Name] = d
			lastText = &d.Body
		case "lemma":
			// lemma name [C01 C02] (x Int, y Val): expr
			l, err := parseLemma(rest)
			if err != nil {
				return fail("%v", err)
			}
			l.File, l.Line = path, lineNo
			w.lemmas = append(w.lemmas, l)
			lastText = &l.Text
		default:
			return fail("unknown contract keyword %q", kw)
		}
	}
	return sc.Err()
}

var atRe = regexp.MustCompile(`^call\s+(\S+)\s+#(\d+|\*)\s*(before|after)?\s*(assert\s+)?(.*)$`)

func parseAt(rest, path string, line int) (*AtSpec, error) {
	m := atRe.FindStringSubmatch(rest)
	if m == nil {
		return nil, fmt.Errorf("bad at clause %q", rest)
	}
	a := &AtSpec{Callee: m[1], Before: m[3] == "before", File: path, Line: line}
	if m[2] != "*" {
		a.Ordinal, _ = strconv.Atoi(m[2])
	}
	body := strings.TrimSpace(m[5])
	body = strings.TrimPrefix(body, ":")
	body = strings.TrimSpace(body)
	if m[4] != "" {
		lbl, txt := splitLabel(body)
		a.Assert = &Clause{Label: lbl, Text: txt, File: path, Line: line}
		a.Before = m[3] != "after"
		return a, nil
	}
	parts := strings.SplitN(body, "=", 2)
	if len(parts) != 2 || strings.HasPrefix(parts[1], "=") {
		return nil, fmt.Errorf("bad ghost update %q", body)
	}
	a.Ghost = strings.TrimSpace(parts[0])
	a.Expr = strings.TrimSpace(parts[1])
	return a, nil
}

var defineRe = regexp.MustCompile(`^(rec\s+)?([A-Za-z_][A-Za-z0-9_]*)\(([^)]*)\)\s+(\S+|\(Array [^=]*\))\s*=\s*(.*)$`)

func parseDefine(rest string) (*Define, error) {
	m := defineRe.FindStringSubmatch(rest)
	if m == nil {
		return nil, fmt.Errorf("bad define %q", rest)
	}
	d := &Define{Name: m[2], Ret: m[4], Body: m[5], Rec: m[1] != ""}
	for _, p := range strings.Split(m[3], ",") {
		p = strings.TrimSpace(p)
		if p == "" {
			continue
		}
		fs := strings.SplitN(p, " ", 2)
		if len(fs) != 2 {
			return nil, fmt.Errorf("bad define parameter %q", p)
		}
		d.Params = append(d.Params, fs[0])
		d.Sorts = append(d.Sorts, strings.TrimSpace(fs[1]))
	}
	return d, nil
}

var lemmaRe = regexp.MustCompile(`^([A-Za-z_][A-Za-z0-9_]*)\s*(\[[^\]]*\])?\s*\(([^)]*)\)\s*:\s*(.*)$`)

func parseLemma(rest string) (*Lemma, error) {
	m := lemmaRe.FindStringSubmatch(rest)
	if m == nil {
		return nil, fmt.Errorf("bad lemma %q", rest)
	}
	l := &Lemma{Name: m[1], Text: m[4]}
	if m[2] != "" {
		l.Props = strings.Fields(strings.Trim(m[2], "[]"))
	}
	for _, p := range strings.Split(m[3], ",") {
		if p = strings.TrimSpace(p); p != "" {
			l.Vars = append(l.Vars, p)
		}
	}
	return l, nil
}
