#!/usr/bin/env python3
"""Regenerates /verif/MANIFEST.json from tools/claims.json (one entry per property)."""
import json, subprocess, os
here = os.path.dirname(os.path.abspath(__file__))
root = os.path.dirname(here)
claims = json.load(open(os.path.join(here, "claims.json")))
props = [json.loads(l)["id"] for l in open(os.path.join(root, "properties.jsonl"))]
hooks = subprocess.run(["git", "-C", "/repo", "log", "--format=%H %s"], capture_output=True, text=True).stdout.strip().split("\n")
hook_commits = [l.split()[0] for l in hooks if " verif:" in " " + l.split(" ", 1)[1][:7] or l.split(" ", 1)[1].startswith("verif:")]
checks, na = [], []
for p in props:
    c = claims.get(p)
    if not c or not c.get("claimed"):
        na.append({"property_id": p, "reason": (c or {}).get("reason", "no check built yet for this property in this round (contract carriers not yet under contract); see DESIGN.md section 4")})
        continue
    checks.append({
        "property_id": p,
        "quick_cmd": f"./check {p} quick",
        "thorough_cmd": f"./check {p} thorough",
        "evidence_file": f"/verif/evidence/{p}.json",
        "replay_cmd_template": "./check " + p + " quick  # replay file {path} names the failed obligation; its smt_file re-runs the query",
        "engine": "govc",
        "level_claimed": {"category": "proof", "text": c["text"], "design_ref": c.get("design_ref", "DESIGN.md section 4 " + p)},
        "level_note": c["note"],
        "technique": c.get("technique", "contract-based deductive verification: weakest-precondition VCs over go/ssa of the real functions, contracts in //@ comments, discharged by z3/cvc5"),
    })
m = {
    "version": 1,
    "setup_cmd": "cd /verif/govc && GOFLAGS=-mod=vendor GOPROXY=off GOSUMDB=off GOTOOLCHAIN=local go build -o /verif/bin/govc .",
    "hooks": {
        "guard": "verif",
        "enable": "checks load /repo with -tags verif; the tag only adds comment-only files <pkg>/zz_contracts_verif.go holding //@ contracts (no executable code)",
        "baseline_off_cmd": "cd /repo && GOFLAGS=-mod=mod GOPROXY=off GOSUMDB=off go test -json -vet=off -count=1 -timeout 25m ./...",
        "source_commits": hook_commits,
        "add_only": True,
    },
    "engines": [{"name": "govc", "path": "/verif/govc", "serves_properties": [c["property_id"] for c in checks],
                 "kind_free_text": "self-built verification-condition generator (symbolic execution / weakest preconditions over go/ssa with loop invariants, modular call contracts, frame and panic-effect obligations) + SMT back ends z3 5.1.0, cvc5 1.0.3, z3 4.8.12"}],
    "checks": checks,
    "not_applicable": na,
    "notes": "Contract-based deductive verification of the real code; see DESIGN.md. Bounded stand-ins, where present, are labelled bounded in evidence and never counted as discharged obligations.",
}
json.dump(m, open(os.path.join(root, "MANIFEST.json"), "w"), indent=1)
print("checks:", [c["property_id"] for c in checks], "n/a:", len(na))
