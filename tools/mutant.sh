#!/bin/bash
# usage: mutant.sh <prop> <file> <sed-expr> ; sed mutant of /repo + check + revert (evidence files preserved)
cd /repo
if ! git diff --quiet; then echo "/repo has uncommitted changes; refusing"; exit 2; fi
ev=$(mktemp -d /tmp/ev_XXXX); cp -a /verif/evidence/. $ev/
sed -i "$3" "$2"
if git diff --quiet; then echo "MUTANT DID NOT APPLY: $3"; rm -rf $ev; exit 0; fi
out=$(cd /verif && ./check $1 2>&1 | grep -E "VIOLATION|govc:" | sed 's/replay=.*replays.\(.*\)/\1/' | grep -v "slow obligation" | head -6)
git checkout -- .
cp -a $ev/. /verif/evidence/; rm -rf $ev
echo "--- $3"; echo "$out"
