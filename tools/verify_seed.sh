#!/bin/bash
# usage: verify_seed.sh <dir under /verif/seeded> ; confirms a seeded change in a scratch worktree of /repo
id=$1
sd=/verif/seeded/$id
wt=$(mktemp -d /tmp/sv_XXXX)
export GOFLAGS=-mod=mod GOPROXY=off GOSUMDB=off GOTOOLCHAIN=local
git -C /repo worktree add -q --detach $wt HEAD || exit 2
cd $wt
res_apply=ok; git apply $sd/patch.diff || res_apply=FAIL
res_build=ok; go build ./... >/dev/null 2>&1 || res_build=FAIL
res_suite=pass; go test -count=1 ./... >/tmp/sv_suite.txt 2>&1 || res_suite=FAIL
cp $sd/demo_test.go zz_seed_demo_test.go
res_with=pass; go test -count=1 -run TestSeedDemo . >/tmp/sv_with.txt 2>&1 || res_with=fails
git apply -R $sd/patch.diff
res_without=pass; go test -count=1 -run TestSeedDemo . >/tmp/sv_without.txt 2>&1 || res_without=fails
echo "$id apply=$res_apply build=$res_build suite=$res_suite demo_with_change=$res_with demo_without_change=$res_without"
cd /; git -C /repo worktree remove --force $wt
