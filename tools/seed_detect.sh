#!/bin/bash
# usage: seed_detect.sh <id> [props...] ; applies /verif/seeded/<id>/patch.diff to /repo, runs the checks, reverts.
id=$1; shift
props="$@"; [ -z "$props" ] && props=${id%%-*}
cd /repo
if ! git diff --quiet; then echo "/repo has uncommitted changes; refusing"; exit 2; fi
ev=$(mktemp -d /tmp/ev_XXXX); cp -a /verif/evidence/. $ev/
git apply /verif/seeded/$id/patch.diff || { echo "$id: patch does not apply"; exit 2; }
for q in $props; do
  (cd /verif && ./check $q 2>&1 | grep -E "VIOLATION|govc: prop" | sed 's/replay=.*replays.//' | head -6)
done
git checkout -- .
cp -a $ev/. /verif/evidence/; rm -rf $ev
