#!/bin/bash
# runs every claimed quick (or $1) check in parallel groups and prints a one-line summary per property
cd /verif
tier=${1:-quick}
ids=$(python3 -c "import json;print(' '.join(c['property_id'] for c in json.load(open('MANIFEST.json'))['checks']))")
for id in $ids; do
  ./check $id $tier 2>&1 | grep -E "VIOLATION|KNOWN-FINDING|govc: prop" | head -5
done
